#!/usr/bin/env python3-vt
"""Audit of the reference model by a second, unrelated implementation (python jsonschema 4.x + referencing).
Input: a JSONL file of sampled cases {draft, schema, base_uri?, docs?, instance, model_valid}.
Output (stdout): one JSON object {"checked": n, "skipped": k, "disagreements": [...]}.
Never decides a property: disagreements are reported by the Go driver as 'inconclusive (oracle dispute)'."""
import json, sys

def main(path):
    try:
        from jsonschema import Draft202012Validator, Draft7Validator
        from referencing import Registry, Resource
        from referencing.jsonschema import DRAFT202012, DRAFT7
    except Exception as e:  # pragma: no cover
        print(json.dumps({"checked": 0, "skipped": 0, "disagreements": [], "error": "python jsonschema unavailable: %s" % e}))
        return
    checked = skipped = 0
    dis = []
    for line in open(path):
        line = line.strip()
        if not line:
            continue
        c = json.loads(line)
        d7 = c.get("draft") == "draft-07"
        spec = DRAFT7 if d7 else DRAFT202012
        cls = Draft7Validator if d7 else Draft202012Validator
        try:
            schema = c["schema"]
            reg = Registry()
            for uri, doc in (c.get("docs") or {}).items():
                reg = reg.with_resource(uri, Resource(contents=doc, specification=spec))
            base = c.get("base_uri") or ""
            if base and isinstance(schema, dict) and "$id" not in schema:
                reg = reg.with_resource(base, Resource(contents=schema, specification=spec))
                v = cls({"$ref": base}, registry=reg)
            elif base and isinstance(schema, dict):
                # resolve the root $id against the base by registering under both
                reg = reg.with_resource(base, Resource(contents=schema, specification=spec))
                v = cls({"$ref": base}, registry=reg)
            else:
                v = cls(schema, registry=reg)
            got = v.is_valid(c["instance"])
        except RecursionError:
            skipped += 1
            continue
        except Exception as e:
            skipped += 1
            continue
        checked += 1
        if got != c["model_valid"]:
            if len(dis) < 20:
                dis.append({"case": c, "python_valid": got})
            else:
                dis.append(None)
    print(json.dumps({"checked": checked, "skipped": skipped, "disagreements": [d for d in dis if d][:20], "n_disagreements": len(dis)}))

if __name__ == "__main__":
    main(sys.argv[1])

#!/bin/bash
# usage: mut.sh <Cxx> <file> <python-replace-old> <new>   (applies a textual mutant to /repo, runs the quick check, restores)
ID=$1; F=$2; OLD=$3; NEW=$4
python3 - "$F" "$OLD" "$NEW" <<'PY'
import sys
p='/repo/jsonschema/'+sys.argv[1]; s=open(p).read()
assert s.count(sys.argv[2])>=1, "pattern not found"
s=s.replace(sys.argv[2],sys.argv[3],1); open(p,'w').write(s)
PY
[ $? -ne 0 ] && { git -C /repo checkout -- .; exit 3; }
(cd /repo && GOFLAGS=-mod=mod GOPROXY=off GOSUMDB=off GOTOOLCHAIN=local go test -vet=off -count=1 ./... 2>&1 | tail -1)
./run $ID quick | tail -3
git -C /repo checkout -- .

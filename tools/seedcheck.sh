#!/bin/bash
# usage: seedcheck.sh <seed-dir with patch.diff + zz_seed_demo_test.go> <check ids...>
# 1. confirms in a scratch worktree: patch applies, suite passes with it, demo fails with / passes without
# 2. runs the listed quick checks against that scratch worktree (VERIF_REPO), never touching /repo
export GOFLAGS=-mod=mod GOPROXY=off GOSUMDB=off GOTOOLCHAIN=local
D=$1; shift
WT=/tmp/verify-$$
git -C /repo worktree add -q $WT HEAD || exit 2
cp $D/zz_seed_demo_test.go $WT/jsonschema/
( cd $WT && go test -vet=off -count=1 -run TestSeedDemo ./jsonschema/ >/tmp/sc.$$ 2>&1; echo "demo_without_change: $(tail -1 /tmp/sc.$$)" )
if ! git -C $WT apply $D/patch.diff 2>/dev/null && ! git -C $WT apply --3way $D/patch.diff; then echo "PATCH DOES NOT APPLY"; git -C /repo worktree remove --force $WT; exit 2; fi
( cd $WT && go build -tags verif ./... && echo "builds with -tags verif: ok" )
( cd $WT && go test -vet=off -count=1 -skip TestSeedDemo ./... 2>&1 | tail -1 | sed 's/^/suite_with_change: /' )
( cd $WT && go test -vet=off -count=1 -run TestSeedDemo ./jsonschema/ >/tmp/sc.$$ 2>&1; echo "demo_with_change: $(tail -1 /tmp/sc.$$)" )
rm -f /tmp/sc.$$ $WT/jsonschema/zz_seed_demo_test.go
cd /verif
for id in "$@"; do
  out=$(VERIF_REPO=$WT ./run $id quick 2>&1)
  echo "$id: $(echo "$out" | grep -c '^VIOLATION') violation lines; $(echo "$out" | tail -1 | cut -c1-160)"
  echo "$out" | grep -A1 '^VIOLATION' | head -2 | sed 's/^/     /' | cut -c1-300
done
git -C /repo worktree remove --force $WT

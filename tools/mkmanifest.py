#!/usr/bin/env python3
"""Regenerates /verif/MANIFEST.json from the table below (kept in one place so it stays valid)."""
import json, os, subprocess

HOOK_COMMITS = ["4812ca0"]

CHECKS = {
 "C01": dict(tech="differential runtime monitor: real Unmarshal+Resolve+Validate vs. an independent executable reference model (exact rationals) on seeded grouped schema x boundary-instance workloads",
             text="Exploration: 40k (quick) / 1M (thorough) generated 2020-12 schema documents x 16 instances, each verdict compared with an independent reference evaluator that replays the official suite; evidence lists per-keyword decisive counts and the same-group keyword pair table. Right level because validity is a relation over an infinite product space; a monitor with a strong oracle over interaction-dense workloads is what this family offers.",
             note="Trusts the reference model (self-tested on 2,012 official suite cases, audited against python jsonschema), the generators' domain guards (float64-exact numbers, dyadic multipleOf with small quotients, RE2-subset patterns). Known finding KF-C01-1 pinned.", ref="5 C01"),
 "C05": dict(tech="metamorphic runtime monitor: Marshal/Unmarshal/Marshal fixpoint, parallel reflection walk for keyword preservation, behavioural equivalence of both sides on instance pools",
             text="Exploration over random Schema values (reflection-populated, every field in every mode) and generated documents of both drafts; byte/JSON fixpoint, keyword presence and verdict equivalence are checked per case.",
             note="K3/K4 classes (empty-but-present enum/anyOf/oneOf, nil DependencyStrings value) are pinned known findings and excluded from generation.", ref="5 C05"),
 "C08": dict(tech="metamorphic runtime monitor: verdict on the canonical encoding/json decoding vs. verdicts on random exact Go representations of the same JSON value",
             text="Exploration: generated schemas (both drafts) and representation-sensitive focused schemas x instances x 8 exact Go representations each (all numeric kinds, json.Number spellings, named types, typed containers, named key types, pointers).",
             note="Representations are built by the harness and self-checked to denote the same value via its own canonical form; nil slices/maps/structs/[]byte are outside the domain.", ref="5 C08"),
 "C11": dict(tech="runtime monitor with an independently computed canonical form as oracle over all ordered pairs of related values in mixed Go representations",
             text="Exploration: groups of 8 related JSON values (equal by construction / near misses) x 2 representations, all ordered pairs compared with canonical-form equality; reflexivity and symmetry fall out of the pair matrix.",
             note="Canonical form (internal/canon) is the definition of JSON value equality used; numbers as exact rationals.", ref="5 C11"),
 "C12": dict(tech="runtime monitor: enum/const/uniqueItems verdicts vs. the pairwise canonical-form definition, repeated under fresh per-call hash seeds and in two processes; hash law checked through the verif hook",
             text="Exploration: arrays with planted equal-but-not-identical duplicates, enum/const lists as documents and as Schema structs holding arbitrary representations; 8 repetitions per array and a second process; Equal=>same hash checked on equal-by-construction pairs.",
             note="Needs the VerifHashValue hook for the hash law; otherwise verdict-only.", ref="5 C12"),
}

PENDING = ["C02","C03","C04","C06","C07","C09","C10","C13","C14","C15","C16","C17","C18","C19","C20"]

def main():
    checks = []
    for pid in sorted(CHECKS):
        c = CHECKS[pid]
        checks.append({
            "property_id": pid,
            "quick_cmd": f"./run {pid} quick",
            "thorough_cmd": f"./run {pid} thorough",
            "evidence_file": f"/verif/evidence/{pid}.json",
            "replay_cmd_template": f"./run {pid} --replay {{path}}",
            "engine": "vcheck",
            "level_claimed": {"category": "exploration", "text": c["text"], "design_ref": "DESIGN.md section " + c["ref"]},
            "level_note": c["note"],
            "technique": c["tech"],
        })
    na = [{"property_id": p, "reason": "check under construction in this build phase (not claimed yet)"} for p in PENDING if p not in CHECKS]
    m = {
        "version": 1,
        "setup_cmd": "./setup.sh",
        "hooks": {
            "guard": "verif (Go build tag)",
            "enable": "go build -tags verif (done by ./run on every invocation, against /repo's working tree via a replace directive)",
            "baseline_off_cmd": "cd /repo && GOFLAGS=-mod=mod GOPROXY=off GOSUMDB=off GOTOOLCHAIN=local go test -vet=off -count=1 ./...",
            "source_commits": HOOK_COMMITS,
            "add_only": True,
        },
        "engines": [
            {"name": "vcheck", "path": "harness/cmd/vcheck", "serves_properties": sorted(CHECKS), "kind_free_text": "Go driver/worker harness: seeded workloads run in child processes linking the freshly built library; monitors (reference model, canonical form, metamorphic relations, race detector) decide every observed call"},
            {"name": "refmodel", "path": "harness/internal/refmodel", "serves_properties": ["C01","C02","C03","C06","C07","C15","C17","C18"], "kind_free_text": "independent JSON Schema reference evaluator (2020-12 + draft-07) used as executable specification"},
        ],
        "checks": checks,
        "not_applicable": na,
        "notes": "Runtime monitoring family. Every check: ./run <id> <tier>; VERIF_SEED selects the seed; evidence in evidence/<id>.json; violations write replay/<id>-<seed>-<case>.json.",
    }
    if not na:
        del m["not_applicable"]
    json.dump(m, open("/verif/MANIFEST.json", "w"), indent=1)
    print("wrote MANIFEST.json with", len(checks), "checks;", len(na), "not claimed")

main()

#!/usr/bin/env python3
"""Regenerates /verif/MANIFEST.json from the table below (kept in one place so it stays valid)."""
import json, os, subprocess

HOOK_COMMITS = ["4812ca0"]

CHECKS = {
 "C01": dict(tech="differential runtime monitor: real Unmarshal+Resolve+Validate vs. an independent executable reference model (exact rationals) over seeded interaction-dense schema x boundary-instance workloads",
   text="Exploration: 40k (quick) / 1.2M (thorough) generated 2020-12 schema documents x 16 instances, every verdict compared with an independent reference evaluator that replays the official suite; evidence lists per-keyword decisive counts and the same-group keyword-pair table. Validity is a relation over an infinite product space; a monitor with a strong oracle over interaction-dense workloads is the level this family offers.",
   note="Trusts the reference model (self-tested on 2,012 official suite cases, cross-checked against python jsonschema on ~96k random pairs) and the generators' domain guards (float64-exact numbers, dyadic multipleOf with small quotients, RE2-subset patterns). Known finding KF-C01-1 pinned.", ref="5 C01"),
 "C02": dict(tech="differential runtime monitor against the reference model in draft-07 mode, with loaded documents and a configuration sweep of the root's $schema (constant oracle: error)",
   text="Exploration: draft-07 documents (either $schema spelling), draft-07 roots reaching Loader documents from depth 0-3, and 40 unsupported $schema values; non-triviality is measured as 'the 2020-12 reading of the same input differs'.",
   note="Remote documents never declare another supported draft than the root; keywords of the other draft are not mixed in.", ref="5 C02"),
 "C03": dict(tech="marker technique + reference-model resolver over generated reference universes; offline checker over the recorded Loader request history",
   text="Exploration: root + 0-3 loader documents with embedded resources, decoy anchors, every reference form, fault classes (dangling reference, loader error, no loader); verdict vectors over unique markers identify the node each $ref reached; loader history checked for repeated requests.",
   note="Guards: loader serves retrieval URI and canonical id; cross-document references address document roots plus fragment; urn bases use fragment/absolute references only.", ref="5 C03, App. B"),
 "C04": dict(tech="second-system oracle: whatever encoding/json emits for a value of T must validate against Resolve(ForType(T)); types from a committed corpus and reflect-built at run time",
   text="Exploration over programs (types) and inputs (values): 50k/1.5M types x 5 value classes (zero, min, max, random x2) incl. extremes of every sized integer, nil pointers/slices, omitted omitempty fields, embeddings.",
   note="Domain exclusions per the property (nil maps, []byte, ',string', unregistered marshalers, nil embedded pointers); KF-C04-1..3 pinned and their classes not generated.", ref="5 C04"),
 "C05": dict(tech="metamorphic runtime monitor: Marshal/Unmarshal/Marshal fixpoint, parallel reflection walk for keyword preservation, behavioural equivalence of both sides on instance pools",
   text="Exploration over random Schema values (reflection-populated, every field in every mode) and generated documents of both drafts; byte/JSON fixpoint, keyword presence and verdict equivalence are checked per case.",
   note="K3/K4 classes (empty-but-present enum/anyOf/oneOf, nil DependencyStrings value) are pinned known findings KF-C05-1/2 and excluded from generation.", ref="5 C05"),
 "C06": dict(tech="marker technique + reference-model dynamic-scope walk over generated dynamic-scope topologies; call histories on one Resolved compared with the stateless model",
   text="Exploration: 1-5 resources with dynamic/plain/no anchor, entered in random order through $ref/$dynamicRef/applicator hops, final $dynamicRef in fragment, resource and pointer form; 30-call histories per Resolved. Non-triviality: a wrong rule (innermost-first, lexical) would pick another candidate.",
   note="Loader documents are referenced as whole documents plus fragment.", ref="5 C06"),
 "C07": dict(tech="differential runtime monitor with exhaustive small instance pools: dedicated unevaluated* schema generator vs. reference model with first-class annotations",
   text="Exploration of schemas, exhaustive over instances: all 81 objects over a 4-name pool or all 31 arrays up to length 4 per schema; decisive cases counted by deleting unevaluated* and re-evaluating in the model.",
   note="Two mutants are known to be equivalent (annotation collector passed into not; merge aliasing) and are not expected to fire.", ref="5 C07"),
 "C08": dict(tech="metamorphic runtime monitor: verdict on the canonical encoding/json decoding vs. verdicts on random exact Go representations of the same JSON value",
   text="Exploration: generated and representation-focused schemas x instances x 8 exact Go representations each (all numeric kinds, json.Number spellings, named types, typed containers, named key types, pointers).",
   note="Representations are self-checked to denote the same value via the harness's canonical form; nil slices/maps/structs/[]byte are outside the domain.", ref="5 C08"),
 "C09": dict(tech="decoder-as-oracle plus mutation classes with expectation by construction: single-point text mutants of valid encodings, typed by a parallel walk of reflect.Type and document",
   text="Exploration over types and documents: every drop-key / undeclared-key / type-swap / integer-bound / null / array-length mutant of valid encodings; accepted => must decode with DisallowUnknownFields; listed classes must be rejected.",
   note="Documents are mutated as text (never through float64); integers stay within the field's 64-bit type; floats below 1e30.", ref="5 C09"),
 "C10": dict(tech="process-level runtime monitor: recover(), logical step budget via the verif hook, memory cap, watchdog, call record logged before every call; hostile byte/struct/type/universe workloads in child processes",
   text="Exploration of hostile inputs with fault detection at process level: panics (recovered, with library frame), fatal errors (child death, isolated re-run), unbounded recursion (step budget / memory cap) are violations; only inputs inside the property's proviso are decided.",
   note="Step budget 100,000 hook events per call; in-place reference cycles, cyclic values for Marshal/Clone/Equal, non-JSON instance kinds are executed but not decided.", ref="5 C10"),
 "C11": dict(tech="runtime monitor with an independently computed canonical form as oracle over all ordered pairs of related values in mixed Go representations",
   text="Exploration: groups of 8 related JSON values (equal by construction / near misses) x 2 representations, all ordered pairs compared with canonical-form equality; reflexivity and symmetry fall out of the pair matrix.",
   note="Canonical form (internal/canon) is the definition of JSON value equality used; numbers as exact rationals.", ref="5 C11"),
 "C12": dict(tech="runtime monitor: enum/const/uniqueItems verdicts vs. the pairwise canonical-form definition, repeated under fresh per-call hash seeds and in two processes; hash law checked through the verif hook",
   text="Exploration: arrays with planted equal-but-not-identical duplicates, enum/const lists as documents and as Schema structs holding arbitrary representations; 8 repetitions per array and a second process; Equal=>same hash on equal-by-construction pairs.",
   note="Needs the VerifHashValue hook for the hash law; otherwise verdict-only.", ref="5 C12"),
 "C13": dict(tech="Go race detector over cold-start concurrent workloads in fresh processes with hook-injected yields, plus sequential-equivalence comparison of every concurrent result",
   text="Exploration over schedules: 96 (quick) / 2,400 (thorough) fresh race-instrumented processes, k in {2,4,8,16} goroutines over one shared Resolved, shared Schema tree, shared ForOptions and the two process-wide caches; evidence reports overlap inside Validate, cache-miss windows, yields, report blocks.",
   note="The race detector sees only executed interleavings; operations are pure so linearizability degenerates to per-call equality with the sequential result (porcupine not needed).", ref="5 C13"),
 "C14": dict(tech="snapshot monitors (deep value + pointer-graph dump before/after) and digest comparison across repetitions and across fresh processes",
   text="Exploration over histories and configurations: Resolve x3, Validate x7 per instance, Marshal x3, Resolve again; schema tree and instances snapshotted around every phase; the case list is re-executed in 3/6 processes and digests must agree.",
   note="Loader documents are not snapshotted (the Loader owns them); ApplyDefaults excluded (mutates by contract).", ref="5 C14"),
 "C15": dict(tech="runtime monitor with a recursive justification checker over observed (before, after, schema) triples, idempotence by re-application, and the reference model for ValidateDefaults",
   text="Exploration: schemas with defaults at depth 0-3 x instances in random Go representations (typed maps, named keys); laws L1-L4 decided per application, L5 (ValidateDefaults) against the model per schema.",
   note="Laws other than 'present values untouched' are decided only when ApplyDefaults returned nil; null defaults are only paired with any-typed containers; Go arrays are not used as map element types.", ref="5 C15"),
 "C16": dict(tech="metamorphic + structural runtime monitor: repeat-call equality (also across processes), pointer-set disjointness, parallel walk of reflect.Type and schema, encoding/json observed on a fully populated value for key set and order",
   text="Exploration over types x options x the JSONSCHEMAGODEBUG setting: determinism, isolation (also after mutating a result), Resolve acceptance, property set/order, required set, null-ness, bounds, TypeSchemas substitution, errors for recursive and unsupported types, pruning with IgnoreInvalidTypes.",
   note="KF-C16-1 pinned; embedded overrides are only checked for the documented 'type object + properties' behaviour.", ref="5 C16"),
 "C17": dict(tech="oracle by construction + marker technique: the harness builds the document around a known location and its own RFC 6901 / fragment encoder; invalid pointers derived from valid ones",
   text="Exploration: 150k/4M locations over every subschema-bearing field (found by reflection) x hostile key strings x indices, nested to depth 5; 14 classes of invalid pointers must make Resolve fail.",
   note="No model involved; siblings and ancestors are built so that their verdict vectors differ from the selected leaf's.", ref="5 C17"),
 "C18": dict(tech="metamorphic runtime monitor: verdicts of a schema vs. 5 decorated variants (non-asserting keywords, unknown keywords, case variants of standard keywords) on the same instances",
   text="Exploration: both drafts; decorations chosen to bite if they asserted; the reference model's trace is used only to count decorations that sat on the evaluation path.",
   note="Well-typed values for known non-asserting keywords; keywords of the other supported draft are not used as unknown keywords.", ref="5 C18"),
 "C19": dict(tech="runtime monitor: repeated Marshal (in-process and across fresh processes) + token-level key-order extraction compared with the order rule computed from the Schema value",
   text="Exploration: Schema trees with 0-8 properties on 3 levels, PropertyOrder permutations/subsets/supersets/duplicates; byte equality across 8 repetitions and 2-4 processes; duplicates must be rejected.",
   note="Key order read from encoding/json's token stream.", ref="5 C19"),
 "C20": dict(tech="structural runtime monitor: pointer-set disjointness by the harness's own reflection, byte equality, library tree check as second observer, two-way overwrite sweep with deep snapshots",
   text="Exploration: trees populating all 23 subschema-bearing fields (found by reflection; inconclusive if one is never populated) to depth 4; every field of every node of one tree overwritten, the other tree's snapshot must not change.",
   note="Slices/maps of non-schema values are shared by contract and never written through.", ref="5 C20"),
}

# Workload dimensions added after seeded-regression rounds 4 to 7 (DESIGN.md section 12.1).
COMMON = (" Since rounds 4-7 of the seeded regressions the workload also contains, where the check's inputs allow it: size-stressed inputs "
          "(containers and keyword collections of 63-257 members, $ref chains up to 129 hops, 15-130 Loader documents, nesting towers up to 2000 levels), "
          "call history (earlier calls with other options and earlier FAILED calls in the same process), arbitrary textual layout of documents, "
          "API-usage patterns (Go-only fields set after decoding, nodes decoded from a decoy and restored in Go, re-used decode targets, DAG-shaped Schema values, caching Loaders), "
          "every lexical form of a number (exponent spellings, decimals no float64 holds exactly; instances also validated in json.Number form) and keywords of the other draft as unknown keywords. "
          "Since round 9: the empty and the separator-only names in every name pool, characters inside strings re-spelled as escapes in re-laid documents, nests of 7-129 single-branch applicators among the size stresses.")
EXTRA = {
 "C09": " Tags with blanks around their elements (typecorpus.SpacedTags). time.Duration, time.Month, time.Weekday as leaf types; embedded structs hidden by a shallower Go name.",
 "C07": " A fifth of the object cases rename one instance name to a name the schema does not know (empty, blank, separators).",
 "C01": " Every comparison also validates the json.Number form of the instance in another lexical spelling; foreign-draft dependency keywords as unknown keywords.",
 "C02": " Shadowed fragment ids beside $ref, tuple + additionalItems beside an items branch, a caching Loader used by roots of the other draft first. nestedDependencies: draft-07 dependencies at two levels (array and schema form) over disjoint or equal name sets.",
 "C03": " Base URIs with (also empty) queries, near-variant id decoys, Loader documents whose retrieval URIs differ only in the letter case of the path, alias leaves ($ref + one sibling) as reference targets, a lexical $dynamicRef beside $ref. 2020-12 anchor names with a leading underscore, dots and underscores.",
 "C10": " Mixed-draft pairs (root of one draft, Loader document declaring the other, nodes with keywords of both), a Loader answering (nil, nil), nil map instances, pointer references with indices around 2^31/2^63/2^64. Go-built Schema values carry non-finite and extreme float64 keyword values and are validated against whenever Resolve accepts them (also when Marshal refuses them); ForType on the nil reflect.Type; deep applicator nests as documents. A *Schema inside examples/enum/const of a Go-built Schema with a pointer reference to it.",
 "C04": " Corpus and reflect-built types include embedded fields encoding/json does not flatten (name tags, '-', non-struct types, pointers to unexported structs), untranslatable kinds with marshalers and TypeSchemas entries, one field name promoted three times, pointer-then-value repeats. json.Number and *json.Number are leaf types of the random type generator (values in several spellings).",
 "C05": " Boolean documents are also decoded into re-used targets; bytes returned by direct Schema.MarshalJSON calls are held and re-compared after later calls.",
 "C06": " Decoy resources declaring the anchor are entered through failing anyOf/not/if/contains branches before the real path; up to 130 unrelated dynamic anchor names; objects with a plain and a dynamic anchor of different names. The final $dynamicRef may sit under propertyNames (the marker travels as a property name down both chains of a fork). Re-entry chains: the resource holding the final reference is entered, left for a new resource and entered again.",
 "C08": " Pointer towers: recursive schemas over 10-2000 nested levels with 0-2 pointers per level; homogeneous typed arrays under items/contains + unevaluatedItems. Wrap-around images: a power of two in enum/const, what a narrowing integer conversion makes of it as the instance, in every integer kind; [N]uint8 arrays; decimals within half an ulp of an integer.",
 "C11": " Towers of up to 1001 containers, aliased prefix rows of one backing array, same-type []json.Number with respelled members.",
 "C12": " Arrays of 13-257 mostly unique items with hash-colliding unequal members; aliased prefix rows in enum/const; uniqueItems beside prefixItems and an items schema listing exactly the remaining values. A second uniqueItems check after a failing one swallowed by not / if / anyOf within the same call. Seam colliders for every separator byte 0..32 and the arrangement X, Y, X; [N]uint8 items.",
 "C13": " Shared Resolved built with ValidateDefaults and object/array defaults; Go-built schemas (absent trailing PropertyOrder names, shared sub-schema objects) in the concurrent Marshal workload; one ResolveOptions value shared by all goroutines; a cold document with escaped pointers that only goroutines resolve. In a third of the processes every goroutine starts with a call that fails (ValidateDefaults on $dynamicRef, a rejected default, no Loader, a bad pattern, a dangling pointer). In those processes with 8 or 16 goroutines each goroutine then validates a tree nested 2500 levels at the same time.",
 "C14": " loaderHistory: one caching Loader serving the same *Schema to five roots of different drafts in a seeded order, each outcome compared with the root resolved alone, options compared before/after; long uniqueItems arrays with hash colliders; case-variant sibling names; several spellings of one anchored literal pattern. numberHistory: one exponent literal near the float64 limit under fixed schemas before and after a fractional multipleOf judged the same literal. mirroredDocument: one *Schema served under 2-5 mirror URIs whose neighbours differ; 8 Resolve calls must agree, and the digest across processes.",
 "C15": " Property names that are other names joined by a separator, with required lists that join to the same text; defaults beside references in both drafts (L5). Integer defaults just outside int8/uint8/int16/uint16 (typed map holders of those kinds must refuse them).",
 "C16": " TypeSchemas tables of up to 15 entries, overrides of every built-in translation, entries keyed by unnamed types or written in tuple-items form, decoy inference calls with other options first, JSON-name collision types (acceptance by Resolve/Marshal only), self-referential pointer and array types. Entries that name other properties than the embedded struct's fields, embedded by value and by pointer (substitution itself is checked); results inferred without caller entries are written THROUGH their number pointers before the next call; json.Number fields. Tags that spell the embedded type's own Go name; embedded structs hidden by a shallower Go name.",
 "C17": " A fifth of the valid locations is served by a Loader (document URI + pointer fragment); a lexical $dynamicRef may sit beside the $ref; root $id spellings that need normalising. Invalid class other-definitions-keyword (/definitions/... where only $defs exists). Keys with U+FFFD, U+FEFF, U+00A0 and astral characters; pointers into the boolean schema false (pinned known finding KF-C17-1 for the route through its internal not).",
 "C18": " Unreferenced $defs/definitions entries whose $id is a near variant (trailing slash, empty segment, query, case) of a referenced resource; roots of Loader-served unevaluated* schemas decorated with content that mentions unevaluated*. Loader documents entered through $anchor or holding $id beside $ref, decorated with unreferenced definitions under either spelling, unknown keywords and annotations.",
 "C19": " One level in ten has 12-257 properties; one sub-schema object may be the value of two properties. The empty and the blank property name. Names above U+FFFF next to names in U+E000..U+FFFF.",
 "C20": " A fifth of the inputs are DAGs (one sub-schema object used at two places). Chains of 999-20000 levels built in Go (one case in 400). A clone is edited in Go (sub-schemas added where there were none) and cloned again.",
}

PENDING = []

def main():
    checks = []
    for pid in sorted(CHECKS):
        c = CHECKS[pid]
        checks.append({
            "property_id": pid,
            "quick_cmd": f"./run {pid} quick",
            "thorough_cmd": f"./run {pid} thorough",
            "evidence_file": f"/verif/evidence/{pid}.json",
            "replay_cmd_template": f"./run {pid} --replay {{path}}",
            "engine": "vcheck",
            "level_claimed": {"category": "exploration", "text": c["text"] + EXTRA.get(pid, "") + COMMON, "design_ref": "DESIGN.md section " + c["ref"] + ", 11, 12"},
            "level_note": c["note"],
            "technique": c["tech"],
        })
    na = [{"property_id": p, "reason": "check under construction in this build phase (not claimed yet)"} for p in PENDING if p not in CHECKS]
    m = {
        "version": 1,
        "setup_cmd": "./setup.sh",
        "hooks": {
            "guard": "verif (Go build tag)",
            "enable": "go build -tags verif (done by ./run on every invocation, against /repo's working tree via a replace directive)",
            "baseline_off_cmd": "cd /repo && GOFLAGS=-mod=mod GOPROXY=off GOSUMDB=off GOTOOLCHAIN=local go test -vet=off -count=1 ./...",
            "source_commits": HOOK_COMMITS,
            "add_only": True,
        },
        "engines": [
            {"name": "vcheck", "path": "harness/cmd/vcheck", "serves_properties": sorted(CHECKS), "kind_free_text": "Go driver/worker harness: seeded workloads run in child processes linking the freshly built library; monitors (reference model, canonical form, metamorphic relations, race detector) decide every observed call"},
            {"name": "refmodel", "path": "harness/internal/refmodel", "serves_properties": ["C01","C02","C03","C06","C07","C10","C15","C18"], "kind_free_text": "independent JSON Schema reference evaluator (2020-12 + draft-07) used as executable specification"},
        ],
        "checks": checks,
        "not_applicable": na,
        "notes": "Runtime monitoring family. Every check: ./run <id> <tier>; VERIF_SEED selects the seed; evidence in evidence/<id>.json; violations write replay/<id>-<seed>-<case>.json.",
    }
    if not na:
        del m["not_applicable"]
    json.dump(m, open("/verif/MANIFEST.json", "w"), indent=1)
    print("wrote MANIFEST.json with", len(checks), "checks;", len(na), "not claimed")

main()

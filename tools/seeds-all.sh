#!/bin/bash
# Re-runs every archived regression in /verif/seeded against the quick check of its property (and of the other
# properties named in meta.json "caught_by"), each in a scratch worktree. Prints one line per (seed, check).
# Usage: tools/seeds-all.sh [seed-dir-name ...]      (default: all)
export GOFLAGS=-mod=mod GOPROXY=off GOSUMDB=off GOTOOLCHAIN=local
cd /verif
SEEDS=("$@"); [ ${#SEEDS[@]} -eq 0 ] && SEEDS=($(ls seeded | sort))
for s in "${SEEDS[@]}"; do
  d=/verif/seeded/$s
  ids=$(python3 -c "
import json,re,sys
m=json.load(open('$d/meta.json'))
ids=[]
for c in m.get('caught_by',[]):
    for x in re.findall(r'^\s*(C\d\d)', c):
        if x not in ids: ids.append(x)
print(' '.join(ids))")
  [ -z "$ids" ] && { echo "$s: (declared not caught / outside the domain)"; continue; }
  WT=/tmp/seedall-$$
  git -C /repo worktree add -q $WT HEAD || exit 2
  # seeds were written against older commits of /repo: apply with a 3-way fallback
  if ! git -C $WT apply $d/patch.diff 2>/dev/null && ! git -C $WT apply --3way $d/patch.diff 2>/dev/null; then
    echo "$s: PATCH NO LONGER APPLIES to /repo HEAD"; git -C /repo worktree remove --force $WT; continue
  fi
  for id in $ids; do
    out=$(VERIF_REPO=$WT ./run $id quick 2>&1)
    n=$(echo "$out" | grep -c '^VIOLATION')
    if [ "$n" -gt 0 ]; then echo "$s: $id CAUGHT ($(echo "$out" | tail -1 | grep -o 'violations=[0-9]*'))"; else echo "$s: $id MISSED  <<<<<<"; fi
  done
  git -C /repo worktree remove --force $WT
done

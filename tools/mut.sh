#!/bin/bash
# usage: tools/mut.sh <Cxx> <file under jsonschema/> <old text> <new text>
# applies a textual mutant in a scratch worktree of /repo, runs the repo suite and the quick check against it.
export GOFLAGS=-mod=mod GOPROXY=off GOSUMDB=off GOTOOLCHAIN=local
ID=$1; F=$2; OLD=$3; NEW=$4
WT=/tmp/mut-$$
git -C /repo worktree add -q $WT HEAD || exit 2
python3 - "$WT/jsonschema/$F" "$OLD" "$NEW" <<'PY'
import sys
p=sys.argv[1]; s=open(p).read()
assert s.count(sys.argv[2])>=1, "pattern not found"
s=s.replace(sys.argv[2],sys.argv[3],1); open(p,'w').write(s)
PY
if [ $? -eq 0 ]; then
  (cd $WT && go test -vet=off -count=1 ./... 2>&1 | tail -1)
  (cd /verif && VERIF_REPO=$WT ./run $ID quick | tail -3)
fi
git -C /repo worktree remove --force $WT

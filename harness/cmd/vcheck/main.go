// vcheck is the single binary of the verification harness.
//
//	vcheck drive  <Cxx> <quick|thorough> [--replay path]   orchestrates a check (spawns workers)
//	vcheck worker <Cxx> <tier> <seed> <from> <to> <prefix> runs cases in this process
//	vcheck known  <Cxx> <id>                               re-executes a pinned known finding
//	vcheck needs-race <Cxx> <tier>                         prints yes/no
//	vcheck list
package main

import (
	"fmt"
	"os"
	"path/filepath"
	"strconv"

	"verif/internal/fw"
	"verif/internal/props"
)

func main() {
	if len(os.Args) < 2 {
		fmt.Println("usage: vcheck drive|worker|known|needs-race|list ...")
		os.Exit(2)
	}
	switch os.Args[1] {
	case "list":
		for _, id := range props.IDs() {
			fmt.Println(id)
		}
	case "needs-race":
		p := mustProp(os.Args[2])
		if r, ok := p.(fw.Racer); ok && r.Race(fw.Tier(os.Args[3])) {
			fmt.Println("yes")
		} else {
			fmt.Println("no")
		}
	case "worker":
		p := mustProp(os.Args[2])
		tier := fw.Tier(os.Args[3])
		seed, _ := strconv.ParseUint(os.Args[4], 10, 64)
		from, _ := strconv.Atoi(os.Args[5])
		to, _ := strconv.Atoi(os.Args[6])
		if err := fw.RunWorker(p, tier, seed, from, to, os.Args[7], os.Getenv("VERIF_REPLAY") != ""); err != nil {
			fmt.Println("worker error:", err)
			os.Exit(3)
		}
	case "known":
		p := mustProp(os.Args[2])
		kr, ok := p.(fw.KnownRunner)
		if !ok {
			fmt.Println("NO-RUNNER")
			os.Exit(3)
		}
		still, detail, err := kr.RunKnown(os.Args[3])
		if err != nil {
			fmt.Println("ERROR", err)
			os.Exit(3)
		}
		if still {
			fmt.Println("STILL-FAILS", detail)
		} else {
			fmt.Println("NO-LONGER-FAILS", detail)
		}
	case "drive":
		p := mustProp(os.Args[2])
		o := fw.DriveOpts{Tier: fw.Tier(os.Args[3]), HooksOn: fw.HooksAvailable}
		for i := 4; i < len(os.Args); i++ {
			if os.Args[i] == "--replay" && i+1 < len(os.Args) {
				o.Replay = os.Args[i+1]
				i++
			}
		}
		if o.Tier != fw.Quick && o.Tier != fw.Thorough {
			fmt.Println("tier must be quick or thorough")
			os.Exit(2)
		}
		o.Seed = 1
		if s := os.Getenv("VERIF_SEED"); s != "" {
			if n, err := strconv.ParseUint(s, 10, 64); err == nil {
				o.Seed = n
			}
		}
		exe, _ := os.Executable()
		o.Exe = exe
		o.RaceExe = os.Getenv("VERIF_RACE_EXE")
		o.VerifDir = os.Getenv("VERIF_DIR")
		if o.VerifDir == "" {
			o.VerifDir = "/verif"
		}
		o.WorkDir = os.Getenv("VERIF_WORK")
		if o.WorkDir == "" {
			o.WorkDir = filepath.Join(filepath.Dir(exe), "work")
		}
		os.Exit(fw.Drive(p, o))
	default:
		fmt.Println("unknown command", os.Args[1])
		os.Exit(2)
	}
}

func mustProp(id string) fw.Property {
	p := props.Get(id)
	if p == nil {
		fmt.Println("unknown property", id)
		os.Exit(2)
	}
	return p
}

package main

import (
	"fmt"

	"github.com/google/jsonschema-go/jsonschema"
)

func main() {
	s := &jsonschema.Schema{Type: "string"}
	rs, err := s.Resolve(nil)
	fmt.Println(rs.Validate("x"), err)
}

package refmodel

import (
	"encoding/json"
	"errors"
	"fmt"
	"math/rand"
	"net/url"
	"os"
	"path/filepath"
	"reflect"
	"sort"
	"strings"
	"testing"
)

const suiteDir = "../../../oracle/suite"

func mustDecode(t testing.TB, s string) any {
	t.Helper()
	v, err := DecodeJSON([]byte(s))
	if err != nil {
		t.Fatalf("DecodeJSON(%s): %v", s, err)
	}
	return v
}

func readJSONFile(t testing.TB, path string) any {
	t.Helper()
	data, err := os.ReadFile(path)
	if err != nil {
		t.Fatal(err)
	}
	v, err := DecodeJSON(data)
	if err != nil {
		t.Fatalf("%s: %v", path, err)
	}
	return v
}

// suiteDocs builds the loader content described in the suite's README: all
// remotes under http://localhost:1234/ plus the meta-schemas.
func suiteDocs(t testing.TB) map[string]any {
	docs := map[string]any{}
	remotes := filepath.Join(suiteDir, "remotes")
	err := filepath.Walk(remotes, func(path string, info os.FileInfo, err error) error {
		if err != nil {
			return err
		}
		if info.IsDir() || !strings.HasSuffix(path, ".json") {
			return nil
		}
		rel, err := filepath.Rel(remotes, path)
		if err != nil {
			return err
		}
		docs["http://localhost:1234/"+filepath.ToSlash(rel)] = readJSONFile(t, path)
		return nil
	})
	if err != nil {
		t.Fatal(err)
	}
	meta := filepath.Join(suiteDir, "meta-schemas")
	docs["https://json-schema.org/draft/2020-12/schema"] = readJSONFile(t, filepath.Join(meta, "draft2020-12", "schema.json"))
	vocab, err := filepath.Glob(filepath.Join(meta, "draft2020-12", "meta", "*.json"))
	if err != nil || len(vocab) == 0 {
		t.Fatalf("no vocabulary meta-schemas found: %v", err)
	}
	for _, path := range vocab {
		name := strings.TrimSuffix(filepath.Base(path), ".json")
		docs["https://json-schema.org/draft/2020-12/meta/"+name] = readJSONFile(t, path)
	}
	d7 := readJSONFile(t, filepath.Join(meta, "draft7", "schema.json"))
	docs["http://json-schema.org/draft-07/schema"] = d7
	docs["https://json-schema.org/draft-07/schema"] = d7
	return docs
}

// suiteSkips lists groups ("<dir>/<file>: <group description>") that cannot
// be decided under the model's rules, with the reason. It is expected to stay
// empty.
var suiteSkips = map[string]string{}

func TestOfficialSuite(t *testing.T) {
	docs := suiteDocs(t)
	totalGroups, totalCases, skipped := 0, 0, 0
	for _, d := range []struct {
		dir   string
		draft Draft
	}{{"draft2020-12", D2020}, {"draft7", D7}} {
		files, err := filepath.Glob(filepath.Join(suiteDir, d.dir, "*.json"))
		if err != nil || len(files) == 0 {
			t.Fatalf("no suite files for %s: %v", d.dir, err)
		}
		sort.Strings(files)
		groups, cases := 0, 0
		for _, file := range files {
			arr, ok := readJSONFile(t, file).([]any)
			if !ok {
				t.Fatalf("%s: not an array", file)
			}
			for _, g := range arr {
				group := g.(map[string]any)
				name := fmt.Sprintf("%s/%s: %s", d.dir, filepath.Base(file), group["description"])
				if why, skip := suiteSkips[name]; skip {
					t.Logf("SKIP %s (%s)", name, why)
					skipped++
					continue
				}
				groups++
				m, err := Build(&Universe{Draft: d.draft, Root: group["schema"], Docs: docs})
				if err != nil {
					t.Errorf("%s: Build: %v", name, err)
					continue
				}
				for _, c := range group["tests"].([]any) {
					tc := c.(map[string]any)
					cases++
					got, err := m.Validate(tc["data"])
					if err != nil {
						t.Errorf("%s / %s: Validate: %v", name, tc["description"], err)
						continue
					}
					if want := tc["valid"].(bool); got != want {
						t.Errorf("%s / %s: got valid=%v, want %v", name, tc["description"], got, want)
					}
					// Tracing must not change the verdict, and a failing
					// verdict must come with at least one failing keyword
					// unless a boolean schema decided.
					events := 0
					m.Trace = func(Event) { events++ }
					traced, err := m.Validate(tc["data"])
					m.Trace = nil
					if err != nil || traced != got {
						t.Errorf("%s / %s: traced run differs: %v %v", name, tc["description"], traced, err)
					}
				}
			}
		}
		t.Logf("%s: %d groups, %d cases checked", d.dir, groups, cases)
		totalGroups += groups
		totalCases += cases
	}
	t.Logf("total: %d groups, %d cases checked, %d groups skipped", totalGroups, totalCases, skipped)
	if len(suiteSkips) != skipped {
		t.Errorf("skip table has %d entries but %d groups were skipped (stale entry?)", len(suiteSkips), skipped)
	}
}

// ------------------------------------------------------------------ URIs

func TestResolveURIRFC3986Examples(t *testing.T) {
	const base = "http://a/b/c/d;p?q"
	examples := [][2]string{
		// 5.4.1 normal examples
		{"g:h", "g:h"},
		{"g", "http://a/b/c/g"},
		{"./g", "http://a/b/c/g"},
		{"g/", "http://a/b/c/g/"},
		{"/g", "http://a/g"},
		{"//g", "http://g"},
		{"?y", "http://a/b/c/d;p?y"},
		{"g?y", "http://a/b/c/g?y"},
		{"#s", "http://a/b/c/d;p?q#s"},
		{"g#s", "http://a/b/c/g#s"},
		{"g?y#s", "http://a/b/c/g?y#s"},
		{";x", "http://a/b/c/;x"},
		{"g;x", "http://a/b/c/g;x"},
		{"g;x?y#s", "http://a/b/c/g;x?y#s"},
		{"", "http://a/b/c/d;p?q"},
		{".", "http://a/b/c/"},
		{"./", "http://a/b/c/"},
		{"..", "http://a/b/"},
		{"../", "http://a/b/"},
		{"../g", "http://a/b/g"},
		{"../..", "http://a/"},
		{"../../", "http://a/"},
		{"../../g", "http://a/g"},
		// 5.4.2 abnormal examples
		{"../../../g", "http://a/g"},
		{"../../../../g", "http://a/g"},
		{"/./g", "http://a/g"},
		{"/../g", "http://a/g"},
		{"g.", "http://a/b/c/g."},
		{".g", "http://a/b/c/.g"},
		{"g..", "http://a/b/c/g.."},
		{"..g", "http://a/b/c/..g"},
		{"./../g", "http://a/b/g"},
		{"./g/.", "http://a/b/c/g/"},
		{"g/./h", "http://a/b/c/g/h"},
		{"g/../h", "http://a/b/c/h"},
		{"g;x=1/./y", "http://a/b/c/g;x=1/y"},
		{"g;x=1/../y", "http://a/b/c/y"},
		{"g?y/./x", "http://a/b/c/g?y/./x"},
		{"g?y/../x", "http://a/b/c/g?y/../x"},
		{"g#s/./x", "http://a/b/c/g#s/./x"},
		{"g#s/../x", "http://a/b/c/g#s/../x"},
		{"http:g", "http:g"}, // strict parser
	}
	for _, ex := range examples {
		got, err := ResolveURI(base, ex[0])
		if err != nil || got != ex[1] {
			t.Errorf("ResolveURI(%q, %q) = %q, %v; want %q", base, ex[0], got, err, ex[1])
		}
	}
}

func TestResolveURIOther(t *testing.T) {
	for _, c := range []struct{ base, ref, want string }{
		{"", "#/a", "#/a"},
		{"", "#", "#"},
		{"", "", ""},
		{"", "foo/../bar.json", "/bar.json"}, // the literal 5.2.4 algorithm, which assumes an absolute base
		{"", "http://x/a/./b/../c#f", "http://x/a/c#f"},
		{"http://a", "g", "http://a/g"},
		{"http://a", "", "http://a"},
		{"http://a?q", "#f", "http://a?q#f"},
		{"http://a/b#frag", "c", "http://a/c"},
		{"http://a/b#frag", "", "http://a/b"},
		{"urn:uuid:1234", "#/x", "urn:uuid:1234#/x"},
		{"urn:example:a?+r?=q", "#x", "urn:example:a?+r?=q#x"},
		{"urn:example:a/b", "c", "urn:example:a/c"}, // RFC merge, hierarchical or not
		{"urn:example:a", "c", "urn:c"},
		{"file:///folder/file.json", "#/$defs/foo", "file:///folder/file.json#/$defs/foo"},
		{"file:///c:/folder/file.json", "other.json", "file:///c:/folder/other.json"},
		{"http://a/b/c", "//h/p?q#f", "http://h/p?q#f"},
		{"http://a/b/c", "HTTPS://H/%7e", "HTTPS://H/%7e"}, // no normalisation beyond dot segments
		{"http://a/b/", "?", "http://a/b/?"},
		{"http://a/b/?x", "#", "http://a/b/?x#"},
		{"http://a/b/c", "mid/content=5/../6", "http://a/b/mid/6"},
	} {
		got, err := ResolveURI(c.base, c.ref)
		if err != nil || got != c.want {
			t.Errorf("ResolveURI(%q, %q) = %q, %v; want %q", c.base, c.ref, got, err, c.want)
		}
	}
	for _, c := range []struct {
		base, ref string
		escape    bool
	}{
		{"http://a/", "%zz", true},
		{"http://a/", "a%2", true},
		{"http://a/", "#%", true},
		{"http://a/%G0", "x", true},
		{"http://a/", "1a:b", false},
		{"http://a/", ":b", false},
		{"http://a/", "a b", false},
		{"http://a/", "a\tb", false},
		{"http://a/", "#a\x00b", false},
	} {
		got, err := ResolveURI(c.base, c.ref)
		if err == nil {
			t.Errorf("ResolveURI(%q, %q) = %q, want error", c.base, c.ref, got)
		} else if errors.Is(err, errBadEscape) != c.escape {
			t.Errorf("ResolveURI(%q, %q): error %v, escape error wanted: %v", c.base, c.ref, err, c.escape)
		}
	}
}

func TestRemoveDotSegments(t *testing.T) {
	for in, want := range map[string]string{
		"/a/b/c/./../../g":   "/a/g",
		"mid/content=5/../6": "mid/6",
		"":                   "",
		"/":                  "/",
		"..":                 "",
		".":                  "",
		"../a":               "a",
		"/..":                "/",
		"/a/..":              "/",
		"/a/../":             "/",
		"a/..":               "/", // literal RFC algorithm: "a" "/.." -> "/" after dropping "a"
		"/a//../b":           "/a/b",
	} {
		if got := removeDotSegments(in); got != want {
			t.Errorf("removeDotSegments(%q) = %q, want %q", in, got, want)
		}
	}
}

// TestResolveURIAgainstNetURL cross-checks random hierarchical http
// references with net/url. The generator avoids the known deliberate
// differences: net/url lower-cases the scheme, loses a
// defined-but-empty base query when the reference is just a fragment, drops an empty fragment when printing, keeps the base
// fragment for an empty reference, and removes dot segments from the base
// path even when the reference has an empty path.
func TestResolveURIAgainstNetURL(t *testing.T) {
	rng := rand.New(rand.NewSource(20261001))
	pick := func(xs ...string) string { return xs[rng.Intn(len(xs))] }
	seg := func(dots bool) string {
		if dots && rng.Intn(3) == 0 {
			return pick(".", "..")
		}
		return pick("a", "b", "c.d", "g;x=1", "e-f", "..g", "h.", "~i", "%7Ej", "k:l")
	}
	path := func(dots bool) string {
		var sb strings.Builder
		for i, n := 0, rng.Intn(5); i < n; i++ {
			sb.WriteByte('/')
			sb.WriteString(seg(dots))
		}
		if rng.Intn(3) == 0 {
			sb.WriteByte('/')
		}
		return sb.String()
	}
	query := func() string { return pick("", "", "?", "?y", "?y=1&z=/../2", "?a/./b") }
	baseQuery := func() string { return pick("", "", "?q", "?y=1&z=/../2", "?a/./b") }
	const n = 20000
	for i := 0; i < n; i++ {
		base := "http://" + pick("a", "example.com", "h:8080", "u@h") + path(false) + baseQuery()
		var ref string
		switch rng.Intn(6) {
		case 0:
			ref = pick("http", "https", "x-y.z+1") + "://" + pick("x", "y.z:1") + path(true) + query()
		case 1:
			ref = "//" + pick("x", "y.z:1") + path(true) + query()
		case 2:
			ref = path(true) + query()
		case 3:
			ref = query()
		default:
			ref = strings.TrimPrefix(path(true), "/") + query()
			if first, _, _ := strings.Cut(ref, "/"); strings.Contains(first, ":") {
				ref = "./" + ref // a colon in the first segment would make it a scheme
			}
		}
		ref += pick("", "", "#f", "#/a/../b", "#?x")
		bu, err := url.Parse(base)
		if err != nil {
			t.Fatalf("url.Parse(%q): %v", base, err)
		}
		ru, err := url.Parse(ref)
		if err != nil {
			t.Fatalf("url.Parse(%q): %v", ref, err)
		}
		want := bu.ResolveReference(ru).String()
		got, err := ResolveURI(base, ref)
		if err != nil || got != want {
			t.Fatalf("ResolveURI(%q, %q) = %q, %v; net/url says %q", base, ref, got, err, want)
		}
	}
	t.Logf("%d random references agree with net/url", n)
}

// ------------------------------------------------------------------ Equal

func TestEqual(t *testing.T) {
	eq := [][2]string{
		{`null`, `null`},
		{`true`, `true`},
		{`1`, `1.0`},
		{`1`, `1.000e0`},
		{`100`, `1e2`},
		{`100`, `1E+2`},
		{`0.1`, `1e-1`},
		{`-0`, `0`},
		{`-0.0`, `0e5`},
		{`1.50`, `1.5`},
		{`9007199254740993`, `9007199254740993.0`},
		{`123456789012345678901234567890`, `1.2345678901234567890123456789e29`},
		{`"a"`, `"a"`},
		{`"\u00e9"`, `"é"`},
		{`[]`, `[]`},
		{`{}`, `{}`},
		{`[1, [2, {"a": 3.0}]]`, `[1.0, [2, {"a": 3}]]`},
		{`{"a": 1, "b": [true, null]}`, `{"b": [true, null], "a": 1e0}`},
	}
	for _, c := range eq {
		a, b := mustDecode(t, c[0]), mustDecode(t, c[1])
		if !Equal(a, b) || !Equal(b, a) {
			t.Errorf("Equal(%s, %s) = false, want true", c[0], c[1])
		}
	}
	ne := [][2]string{
		{`null`, `false`},
		{`null`, `0`},
		{`null`, `""`},
		{`null`, `[]`},
		{`null`, `{}`},
		{`false`, `0`},
		{`true`, `1`},
		{`true`, `"true"`},
		{`1`, `"1"`},
		{`1`, `1.0000000000000000000000001`},
		{`9007199254740992`, `9007199254740993`},
		{`1e400`, `1e401`},
		{`0`, `[0]`},
		{`"a"`, `"A"`},
		{`"e\u0301"`, `"\u00e9"`},
		{`[]`, `{}`},
		{`[1, 2]`, `[2, 1]`},
		{`[1]`, `[1, 1]`},
		{`{"a": 1}`, `{"a": 2}`},
		{`{"a": 1}`, `{"b": 1}`},
		{`{"a": 1}`, `{"a": 1, "b": 2}`},
		{`{"a": null}`, `{}`},
		{`[[1]]`, `[1]`},
	}
	for _, c := range ne {
		a, b := mustDecode(t, c[0]), mustDecode(t, c[1])
		if Equal(a, b) || Equal(b, a) {
			t.Errorf("Equal(%s, %s) = true, want false", c[0], c[1])
		}
	}
	// Values outside the data model equal nothing, not even themselves.
	if Equal(1.5, 1.5) || Equal(json.Number("1/2"), json.Number("1/2")) || Equal(json.Number("0x10"), json.Number("16")) {
		t.Error("Equal accepted values outside the JSON data model")
	}
}

func TestDecodeJSON(t *testing.T) {
	v, err := DecodeJSON([]byte(" {\"a\": [1.50, 1e2, null, true, \"s\"]} \n"))
	want := map[string]any{"a": []any{json.Number("1.50"), json.Number("1e2"), nil, true, "s"}}
	if err != nil || !reflect.DeepEqual(v, want) {
		t.Errorf("DecodeJSON = %#v, %v", v, err)
	}
	for _, bad := range []string{``, `{} {}`, `1 2`, `[1,]`, `{"a":1}x`, `nul`, `[] ]`} {
		if v, err := DecodeJSON([]byte(bad)); err == nil {
			t.Errorf("DecodeJSON(%q) = %#v, want error", bad, v)
		}
	}
}

// ---------------------------------------------------------------- pointers

const pointerDoc = `{
	"$defs": {
		"a~b": {"type": "string"},
		"c/d": true,
		"": {"$defs": {"": false}},
		"m~0n": {"type": "null"},
		"0": {"type": "integer"},
		"01": {"type": "number"}
	},
	"definitions": {"x": {"items": [{"const": 1}, {"const": 2}], "additionalItems": false}},
	"properties": {"p": {"properties": {"q": {"not": {"if": true, "then": {"else": false}}}}}},
	"patternProperties": {"^x/": {}},
	"dependentSchemas": {"k": {}},
	"dependencies": {"list": ["a", "b"], "sch": {"contains": {}}},
	"allOf": [{"anyOf": [{"oneOf": [true, {"prefixItems": [{}, {"title": "deep"}]}]}]}],
	"items": {"propertyNames": {"additionalProperties": {"unevaluatedItems": {"unevaluatedProperties": {"contentSchema": {"title": "cs"}}}}}},
	"required": ["r"],
	"enum": [{"type": "string"}],
	"const": {"not": {}},
	"default": {"properties": {"p": {}}},
	"examples": [{}],
	"unknown": {"type": "string"},
	"type": ["object", "array"]
}`

func TestEvalPointer(t *testing.T) {
	doc := mustDecode(t, pointerDoc).(map[string]any)
	good := map[string]string{
		"":                                  "", // whole document
		"/$defs/a~0b":                       `{"type": "string"}`,
		"/$defs/c~1d":                       `true`,
		"/$defs/":                           `{"$defs": {"": false}}`,
		"/$defs//$defs/":                    `false`,
		"/$defs/m~00n":                      `{"type": "null"}`,
		"/$defs/0":                          `{"type": "integer"}`,
		"/$defs/01":                         `{"type": "number"}`, // member names are not array indices
		"/definitions/x/items/0":            `{"const": 1}`,
		"/definitions/x/items/1":            `{"const": 2}`,
		"/definitions/x/additionalItems":    `false`,
		"/properties/p/properties/q/not/if": `true`,
		"/properties/p/properties/q/not/then/else": `false`,
		"/patternProperties/^x~1":                  `{}`,
		"/dependentSchemas/k":                      `{}`,
		"/dependencies/sch/contains":               `{}`,
		"/allOf/0/anyOf/0/oneOf/0":                 `true`,
		"/allOf/0/anyOf/0/oneOf/1/prefixItems/1":   `{"title": "deep"}`,
		"/items/propertyNames/additionalProperties/unevaluatedItems/unevaluatedProperties/contentSchema": `{"title": "cs"}`,
	}
	for ptr, want := range good {
		got, err := evalPointer(doc, ptr)
		if err != nil {
			t.Errorf("evalPointer(%q): %v", ptr, err)
			continue
		}
		if ptr == "" {
			if !Equal(got, doc) {
				t.Errorf("evalPointer(\"\") did not return the document")
			}
			continue
		}
		if !Equal(got, mustDecode(t, want)) {
			t.Errorf("evalPointer(%q) = %v, want %s", ptr, got, want)
		}
	}
	bad := []string{
		"$defs/0",                 // no leading slash
		"/",                       // "" is not a keyword
		"/$defs",                  // member map, not a schema
		"/properties",             // ditto
		"/$defs/a~b",              // ~ followed by b
		"/$defs/a~2b",             // ~2 is not an escape
		"/$defs/a~",               // ~ at the end
		"/$defs/a~0b~",            // ~ at the end
		"/$defs/missing",          // no such member
		"/$defs/c~1d/type",        // through a boolean schema
		"/$defs/0/type",           // type is not a schema position
		"/definitions/x/items",    // array of schemas, not a schema
		"/definitions/x/items/2",  // out of range
		"/definitions/x/items/01", // leading zero
		"/definitions/x/items/00",
		"/definitions/x/items/-",
		"/definitions/x/items/-1",
		"/definitions/x/items/+1",
		"/definitions/x/items/1.0",
		"/definitions/x/items/",
		"/definitions/x/items/99999999999999999999999999",
		"/definitions/x/items/0/const", // const is not a schema position
		"/allOf",
		"/allOf/1",
		"/allOf/0/anyOf/0/oneOf/0/x", // through a boolean
		"/required",
		"/required/0",
		"/enum/0",
		"/enum",
		"/const",
		"/const/not",
		"/default/properties/p",
		"/examples/0",
		"/unknown",
		"/type/0",
		"/dependencies/list",   // array of names is not a schema
		"/dependencies/list/0", // nor are its elements
		"/dependencies",
		"/not",            // absent keyword
		"/$defs/0/items",  // absent keyword
		"/Properties/p",   // case-sensitive
		"/%24defs/0",      // percent-decoding is not the pointer's business
		"/properties/p/q", // q is not a keyword of p
		"/properties/p/properties/q/not/if/then",
	}
	for _, ptr := range bad {
		if got, err := evalPointer(doc, ptr); err == nil {
			t.Errorf("evalPointer(%q) = %v, want error", ptr, got)
		}
	}
	// a boolean document only has the empty pointer
	if v, err := evalPointer(true, ""); err != nil || v != true {
		t.Errorf("evalPointer(true, \"\") = %v, %v", v, err)
	}
	if _, err := evalPointer(false, "/not"); err == nil {
		t.Error("evalPointer(false, \"/not\") succeeded")
	}
	if _, err := evalPointer(json.Number("1"), ""); err == nil {
		t.Error("evalPointer on a number succeeded")
	}
}

func TestPointerTokens(t *testing.T) {
	for _, tok := range []string{"", "a", "~", "/", "~/", "/~", "~0", "~1", "~01", "a/b~c", "%25", "é"} {
		toks, err := splitPointer("/x/" + escapeToken(tok) + "/y")
		if err != nil || len(toks) != 3 || toks[1] != tok {
			t.Errorf("round trip of token %q: %q, %v", tok, toks, err)
		}
	}
	if toks, err := splitPointer("/"); err != nil || len(toks) != 1 || toks[0] != "" {
		t.Errorf(`splitPointer("/") = %q, %v`, toks, err)
	}
	if toks, err := splitPointer("//"); err != nil || len(toks) != 2 {
		t.Errorf(`splitPointer("//") = %q, %v`, toks, err)
	}
}

// --------------------------------------------------------- Build / Validate

func build(t *testing.T, u *Universe) *Model {
	t.Helper()
	m, err := Build(u)
	if err != nil {
		t.Fatalf("Build: %v", err)
	}
	return m
}

func wantResolveError(t *testing.T, name string, u *Universe) *Model {
	t.Helper()
	m, err := Build(u)
	var re *ResolveError
	if !errors.As(err, &re) {
		t.Errorf("%s: Build error = %v, want *ResolveError", name, err)
	}
	return m
}

func wantDomainError(t *testing.T, name string, u *Universe) {
	t.Helper()
	_, err := Build(u)
	var de *DomainError
	if !errors.As(err, &de) {
		t.Errorf("%s: Build error = %v, want *DomainError", name, err)
	}
}

func TestResolveErrors(t *testing.T) {
	cases := map[string]string{
		"dangling pointer":                    `{"$ref": "#/$defs/nope"}`,
		"dangling anchor":                     `{"$ref": "#nope"}`,
		"pointer to member map":               `{"$ref": "#/$defs", "$defs": {}}`,
		"pointer to keyword array":            `{"$ref": "#/allOf", "allOf": [true]}`,
		"pointer into enum":                   `{"$ref": "#/enum/0", "enum": [{}]}`,
		"pointer into const":                  `{"$ref": "#/const", "const": {}}`,
		"pointer into unknown":                `{"$ref": "#/foo", "foo": {}}`,
		"pointer into required":               `{"$ref": "#/required/0", "required": ["a"]}`,
		"index with leading zero":             `{"$ref": "#/allOf/00", "allOf": [true]}`,
		"index out of range":                  `{"$ref": "#/allOf/1", "allOf": [true]}`,
		"bad tilde escape":                    `{"$ref": "#/$defs/a~2", "$defs": {"a~2": {}}}`,
		"tilde at end":                        `{"$ref": "#/$defs/a~", "$defs": {"a~": {}}}`,
		"bad percent escape":                  `{"$ref": "#/$defs/a%2", "$defs": {"a%2": {}}}`,
		"relative ref without base":           `{"$ref": "other.json"}`,
		"dangling dynamicRef":                 `{"$dynamicRef": "#nope"}`,
		"dangling in unused def":              `{"$defs": {"a": {"not": {"$ref": "#/$defs/b"}}}}`,
		"id with fragment":                    `{"$id": "http://x/y#frag"}`,
		"nested id with fragment":             `{"$id": "http://x/y", "$defs": {"a": {"$id": "z#a"}}}`,
		"relative root id, no base":           `{"$id": "foo.json"}`,
		"relative nested id, no base":         `{"$defs": {"a": {"$id": "foo.json"}}}`,
		"duplicate anchor":                    `{"$defs": {"a": {"$anchor": "x"}, "b": {"$anchor": "x"}}}`,
		"duplicate mixed anchors":             `{"$defs": {"a": {"$anchor": "x"}, "b": {"$dynamicAnchor": "x"}}}`,
		"embedded resource of other document": `{"$ref": "http://remote/embedded.json"}`,
		"anchor of other resource":            `{"$id": "http://x/", "$ref": "#in", "$defs": {"a": {"$id": "inner", "$anchor": "in"}}}`,
		"missing document":                    `{"$ref": "http://nowhere/x.json"}`,
		"failing document":                    `{"$ref": "http://remote/broken.json"}`,
		"dangling inside loaded":              `{"$ref": "http://remote/dangling.json"}`,
	}
	docs := map[string]any{
		"http://remote/doc.json":      mustDecode(t, `{"$defs": {"e": {"$id": "embedded.json"}}}`),
		"http://remote/dangling.json": mustDecode(t, `{"$defs": {"e": {"$ref": "#/nope"}}}`),
		"http://remote/broken.json":   mustDecode(t, `true`),
	}
	for name, schema := range cases {
		u := &Universe{Root: mustDecode(t, schema), Docs: docs, LoadErr: map[string]bool{"http://remote/broken.json": true}}
		if name == "embedded resource of other document" {
			// make sure doc.json is loaded first, so that its embedded resource exists
			u.Root = mustDecode(t, `{"allOf": [{"$ref": "http://remote/doc.json"}, {"$ref": "http://remote/embedded.json"}]}`)
		}
		wantResolveError(t, name, u)
	}

	// draft-07 flavours
	for name, schema := range map[string]string{
		"$defs is still a schema position": `{"$defs": {"a": {"$ref": "#/nope"}}}`,
		"sibling of $ref is still indexed": `{"$ref": "#", "properties": {"a": {"$ref": "#/nope"}}}`,
		"$anchor means nothing":            `{"allOf": [{"$ref": "#a"}], "definitions": {"a": {"$anchor": "a"}}}`,
		"$id next to $ref is ignored":      `{"allOf": [{"$ref": "http://x/a"}], "definitions": {"a": {"$id": "http://x/a", "$ref": "#"}}}`,
		"duplicate #id":                    `{"definitions": {"a": {"$id": "#x"}, "b": {"$id": "#x"}}}`,
	} {
		wantResolveError(t, "draft7 "+name, &Universe{Draft: D7, Root: mustDecode(t, schema)})
	}
}

func TestDomainErrors(t *testing.T) {
	for name, schema := range map[string]string{
		"relative ref on urn base":    `{"$id": "urn:example:x", "$ref": "other"}`,
		"query ref on urn base":       `{"$id": "urn:example:x", "$ref": "?q"}`,
		"relative id on urn base":     `{"$id": "urn:example:x", "$defs": {"a": {"$id": "other"}}}`,
		"ref not a string":            `{"$ref": 1}`,
		"id not a string":             `{"$id": 1}`,
		"type not a type":             `{"type": "int"}`,
		"minimum not a number":        `{"minimum": "1"}`,
		"negative minLength":          `{"minLength": -1}`,
		"fractional maxItems":         `{"maxItems": 1.5}`,
		"zero multipleOf":             `{"multipleOf": 0}`,
		"properties not an object":    `{"properties": []}`,
		"allOf not an array":          `{"allOf": {}}`,
		"non-schema in position":      `{"properties": {"a": 1}}`,
		"non-schema in array":         `{"anyOf": [null]}`,
		"required not strings":        `{"required": [1]}`,
		"array-form items in 2020":    `{"items": [{}]}`,
		"same URI twice":              `{"$defs": {"a": {"$id": "http://x/a"}, "b": {"$id": "http://x/a"}}}`,
		"blank in ref":                `{"$ref": "http://x/a b"}`,
		"huge exponent in schema":     `{"maximum": 1e99999999}`,
		"huge exponent in const":      `{"const": [1e99999999]}`,
		"anchor name with slash":      `{"$anchor": "/a"}`,
		"anchor equals dynamicAnchor": `{"$anchor": "a", "$dynamicAnchor": "a"}`,
	} {
		wantDomainError(t, name, &Universe{Root: mustDecode(t, schema)})
	}
	wantDomainError(t, "root not a schema", &Universe{Root: mustDecode(t, `[]`)})
	wantDomainError(t, "relative BaseURI", &Universe{Root: true, BaseURI: "a/b"})
	wantDomainError(t, "BaseURI with fragment", &Universe{Root: true, BaseURI: "http://a/b#c"})
	wantDomainError(t, "loaded document not a schema", &Universe{
		Root: mustDecode(t, `{"$ref": "http://remote/x"}`),
		Docs: map[string]any{"http://remote/x": json.Number("1")},
	})
	wantDomainError(t, "two documents, one URI", &Universe{
		Root: mustDecode(t, `{"allOf": [{"$ref": "http://remote/a"}, {"$ref": "http://remote/b"}]}`),
		Docs: map[string]any{
			"http://remote/a": mustDecode(t, `{}`),
			"http://remote/b": mustDecode(t, `{"$id": "http://remote/a"}`),
		},
	})

	// draft-07: siblings of $ref are ignored, whatever they contain
	build(t, &Universe{Draft: D7, Root: mustDecode(t, `{"$ref": "#", "type": "int", "minimum": "x", "$id": 7}`)})
}

func TestValidateDomainErrors(t *testing.T) {
	check := func(name string, m *Model, inst string, wantErr bool) {
		t.Helper()
		_, err := m.Validate(mustDecode(t, inst))
		var de *DomainError
		if wantErr != errors.As(err, &de) {
			t.Errorf("%s: Validate(%s) error = %v, want DomainError: %v", name, inst, err, wantErr)
		}
	}
	m := build(t, &Universe{Root: mustDecode(t, `{"$ref": "#"}`)})
	check("self reference", m, `1`, true)

	m = build(t, &Universe{Root: mustDecode(t, `{"type": "string", "allOf": [{"$ref": "#"}]}`)})
	check("cycle through allOf, even if type fails", m, `1`, true)

	m = build(t, &Universe{Root: mustDecode(t, `{"$defs": {"a": {"$ref": "#/$defs/b"}, "b": {"anyOf": [{"$ref": "#/$defs/a"}]}}, "properties": {"x": {"$ref": "#/$defs/a"}}}`)})
	check("cycle only below a property", m, `{"y": 1}`, false)
	check("cycle only below a property", m, `{"x": 1}`, true)

	m = build(t, &Universe{Root: mustDecode(t, `{"properties": {"next": {"$ref": "#"}}, "additionalProperties": false}`)})
	check("recursion that consumes the instance", m, `{"next": {"next": {"next": {}}}}`, false)

	m = build(t, &Universe{Root: mustDecode(t, `{"pattern": "a(?=b)", "patternProperties": {"(?!x)": true}}`)})
	check("bad pattern, not needed", m, `1`, false)
	check("bad pattern, needed", m, `"ab"`, true)
	check("bad patternProperties, no member to match", m, `{}`, false)
	check("bad patternProperties, needed", m, `{"a": 1}`, true)

	m = build(t, &Universe{Root: true})
	check("huge exponent in instance", m, `[1e99999999]`, true)
	if _, err := m.Validate(1.5); err == nil {
		t.Error("float64 instance accepted")
	}
	if _, err := m.ValidateAt("/nope", nil); err == nil {
		t.Error("ValidateAt at a non-existing pointer succeeded")
	}
}

func TestLoads(t *testing.T) {
	docs := map[string]any{
		"http://h/a.json":         mustDecode(t, `{"$id": "http://canonical/a", "properties": {"x": {"$ref": "c.json"}, "y": {"$ref": "http://h/b.json#/$defs/n"}}}`),
		"http://h/b.json":         mustDecode(t, `{"$defs": {"n": {"$ref": "a.json"}, "m": {"$ref": "http://canonical/a"}}}`),
		"http://canonical/c.json": mustDecode(t, `{"$ref": "http://h/b.json"}`),
		"http://h/unused.json":    mustDecode(t, `{"$ref": "#/nope"}`),
	}
	// Root references, in sorted keyword order: allOf/0 -> a.json, allOf/1 -> b.json.
	// Loading a.json resolves its own references first (depth first):
	// properties/x -> http://canonical/c.json (base is a's $id), whose reference loads b.json,
	// whose references (a.json by retrieval URI, http://canonical/a by canonical URI) are known.
	root := mustDecode(t, `{"$id": "http://h/root.json", "allOf": [{"$ref": "a.json"}, {"$ref": "b.json"}, {"$ref": "a.json#"}, {"$ref": "http://canonical/a"}]}`)
	m := build(t, &Universe{Root: root, Docs: docs})
	want := []string{"http://h/a.json", "http://canonical/c.json", "http://h/b.json"}
	if got := m.Loads(); !reflect.DeepEqual(got, want) {
		t.Errorf("Loads = %q, want %q", got, want)
	}

	m = wantResolveError(t, "load error", &Universe{Root: root, Docs: docs, LoadErr: map[string]bool{"http://canonical/c.json": true}})
	want = []string{"http://h/a.json", "http://canonical/c.json"}
	if got := m.Loads(); !reflect.DeepEqual(got, want) {
		t.Errorf("Loads after load error = %q, want %q", got, want)
	}
	if _, err := m.Validate(nil); err == nil {
		t.Error("Validate on a failed Model succeeded")
	}

	m = wantResolveError(t, "no loader", &Universe{Root: root, Docs: docs, NoLoader: true})
	if got := m.Loads(); len(got) != 0 {
		t.Errorf("Loads without loader = %q, want none", got)
	}

	// The root is found by its canonical URI and by its retrieval URI without loading.
	m = build(t, &Universe{
		BaseURI: "http://h/retrieved.json",
		Root:    mustDecode(t, `{"$id": "http://h/root.json", "$defs": {"a": {"$ref": "http://h/other.json"}}}`),
		Docs: map[string]any{
			"http://h/other.json":     mustDecode(t, `{"allOf": [{"$ref": "retrieved.json"}, {"$ref": "root.json#/$defs/a"}]}`),
			"http://h/root.json":      mustDecode(t, `false`),
			"http://h/retrieved.json": mustDecode(t, `false`),
		},
	})
	if got := m.Loads(); !reflect.DeepEqual(got, []string{"http://h/other.json"}) {
		t.Errorf("Loads = %q", got)
	}
}

func TestEmptyRef(t *testing.T) {
	m := build(t, &Universe{Root: mustDecode(t, `{"properties": {"a": {"$ref": ""}}, "additionalProperties": false}`)})
	for inst, want := range map[string]bool{`{"a": {"a": {}}}`: true, `{"a": {"b": 1}}`: false} {
		if got, err := m.Validate(mustDecode(t, inst)); err != nil || got != want {
			t.Errorf("Validate(%s) = %v, %v; want %v", inst, got, err, want)
		}
	}
	// inside an embedded resource "" is that resource's root
	m = build(t, &Universe{Root: mustDecode(t, `{"$id": "http://x/r", "type": "object", "properties": {"a": {"$id": "inner", "type": "array", "items": {"$ref": ""}}}}`)})
	for inst, want := range map[string]bool{`{"a": [[], [[]]]}`: true, `{"a": [{}]}`: false} {
		if got, err := m.Validate(mustDecode(t, inst)); err != nil || got != want {
			t.Errorf("Validate(%s) = %v, %v; want %v", inst, got, err, want)
		}
	}
}

func TestNumbers(t *testing.T) {
	for _, c := range []struct {
		schema, inst string
		want         bool
	}{
		{`{"type": "integer"}`, `1.0`, true},
		{`{"type": "integer"}`, `1e2`, true},
		{`{"type": "integer"}`, `15e-1`, false},
		{`{"type": "integer"}`, `12345678901234567890123`, true},
		{`{"type": "integer"}`, `1.0000000000000000000001`, false},
		{`{"type": "number"}`, `1`, true},
		{`{"multipleOf": 0.01}`, `0.07`, true},
		{`{"multipleOf": 0.1}`, `0.3`, true}, // not so with float64
		{`{"multipleOf": 1e-8}`, `12391239123`, true},
		{`{"multipleOf": 0.3}`, `1`, false},
		{`{"multipleOf": 2}`, `1e400`, true},
		{`{"maximum": 9007199254740992}`, `9007199254740993`, false},
		{`{"exclusiveMinimum": 9223372036854775807}`, `9223372036854775808`, true},
		{`{"exclusiveMinimum": 1.0}`, `1`, false},
		{`{"const": 1e2}`, `100.0`, true},
		{`{"enum": [0.5]}`, `5e-1`, true},
		{`{"uniqueItems": true}`, `[1, 1.0]`, false},
		{`{"uniqueItems": true}`, `[1, "1", [1], {"1": 1}, true, null]`, true},
		{`{"minLength": 2.0}`, `"\ud83d\udca9x"`, true},
		{`{"maxLength": 1e0}`, `"\ud83d\udca9"`, true},
		{`{"maxLength": 1}`, `"e\u0301"`, false},
		{`{"minItems": 1e30}`, `[1]`, false},
		{`{"maxItems": 1e30}`, `[1]`, true},
		{`{"minContains": 0, "contains": false}`, `[1]`, true},
		{`{"minContains": 2}`, `[]`, true},
		{`{"maxContains": 0.0, "contains": {"const": 1}}`, `[1]`, false},
		{`{"pattern": "b+"}`, `"abbc"`, true},
		{`{"pattern": "^b+$"}`, `"abbc"`, false},
		{`{"then": false}`, `1`, true},
		{`{"if": false, "then": false}`, `1`, true},
		{`{"if": true, "else": false}`, `1`, true},
		{`{"Type": "string", "MINIMUM": 5}`, `1`, true},
	} {
		m := build(t, &Universe{Root: mustDecode(t, c.schema)})
		if got, err := m.Validate(mustDecode(t, c.inst)); err != nil || got != c.want {
			t.Errorf("%s on %s = %v, %v; want %v", c.schema, c.inst, got, err, c.want)
		}
	}
}

func TestDraft7Specifics(t *testing.T) {
	for _, c := range []struct {
		schema, inst string
		want         bool
	}{
		{`{"prefixItems": [false], "unevaluatedItems": false, "unevaluatedProperties": false, "dependentRequired": {"a": ["b"]}, "dependentSchemas": {"a": false}, "minContains": 5, "$dynamicRef": "#/nope"}`, `[1]`, true},
		{`{"prefixItems": [false], "unevaluatedProperties": false, "dependentRequired": {"a": ["b"]}, "dependentSchemas": {"a": false}}`, `{"a": 1}`, true},
		{`{"additionalItems": false}`, `[1]`, true},
		{`{"items": {}, "additionalItems": false}`, `[1]`, true},
		{`{"items": [{}], "additionalItems": false}`, `[1, 2]`, false},
		{`{"contains": {"const": 1}, "maxContains": 1}`, `[1, 1]`, true},
		{`{"dependencies": {"a": ["b"], "c": {"required": ["d"]}, "e": false}}`, `{"a": 1, "b": 1, "c": 1, "d": 1}`, true},
		{`{"dependencies": {"a": ["b"]}}`, `{"a": 1}`, false},
		{`{"dependencies": {"c": {"required": ["d"]}}}`, `{"c": 1}`, false},
		{`{"dependencies": {"e": false}}`, `{"e": 1}`, false},
		{`{"definitions": {"a": {"type": "string"}}, "properties": {"x": {"$ref": "#/definitions/a", "type": "number", "minimum": 5}}}`, `{"x": "s"}`, true},
	} {
		m := build(t, &Universe{Draft: D7, Root: mustDecode(t, c.schema)})
		if got, err := m.Validate(mustDecode(t, c.inst)); err != nil || got != c.want {
			t.Errorf("draft7 %s on %s = %v, %v; want %v", c.schema, c.inst, got, err, c.want)
		}
	}
	// The same keywords are alive in 2020-12 and dead the other way round.
	for _, c := range []struct {
		schema, inst string
		want         bool
	}{
		{`{"dependencies": {"a": ["b"], "c": false}, "additionalItems": false}`, `{"a": 1, "c": 1}`, true},
		{`{"prefixItems": [{}], "additionalItems": false}`, `[1, 2]`, true},
		{`{"$defs": {"a": {"type": "string"}}, "properties": {"x": {"$ref": "#/$defs/a", "minLength": 5}}}`, `{"x": "s"}`, false},
	} {
		m := build(t, &Universe{Root: mustDecode(t, c.schema)})
		if got, err := m.Validate(mustDecode(t, c.inst)); err != nil || got != c.want {
			t.Errorf("2020-12 %s on %s = %v, %v; want %v", c.schema, c.inst, got, err, c.want)
		}
	}
}

const dynSchema = `{
	"$id": "http://x/root",
	"$dynamicAnchor": "T",
	"type": "object",
	"properties": {"v": {"const": "root"}},
	"$ref": "mid",
	"$defs": {
		"mid": {
			"$id": "mid",
			"$dynamicAnchor": "T",
			"properties": {"v": {"enum": ["root", "mid"]}, "next": {"$ref": "leaf"}}
		},
		"leaf": {
			"$id": "leaf",
			"$dynamicAnchor": "T",
			"properties": {"v": {"enum": ["root", "mid", "leaf"]}, "rec": {"$dynamicRef": "#T"}}
		}
	}
}`

func TestDynRuleAndValidateAt(t *testing.T) {
	m := build(t, &Universe{Root: mustDecode(t, dynSchema)})
	inst := func(v string) any { return mustDecode(t, `{"next": {"rec": {"v": "`+v+`"}}}`) }
	for _, c := range []struct {
		rule DynRule
		v    string
		want bool
	}{
		{DynOutermost, "root", true}, {DynOutermost, "mid", false}, {DynOutermost, "leaf", false},
		{DynInnermost, "root", true}, {DynInnermost, "mid", true}, {DynInnermost, "leaf", true},
		{DynLexical, "root", true}, {DynLexical, "mid", true}, {DynLexical, "leaf", true},
	} {
		m.DynRule = c.rule
		if got, err := m.Validate(inst(c.v)); err != nil || got != c.want {
			t.Errorf("rule %d, v=%s: %v, %v; want %v", c.rule, c.v, got, err, c.want)
		}
	}
	m.DynRule = DynOutermost

	// Innermost and lexical differ when the reference sits in a resource
	// entered after the lexical target's: start at mid, go to leaf, whose
	// $dynamicRef lexically points to leaf itself.
	leafInst := mustDecode(t, `{"rec": {"v": "leaf"}}`)
	// ValidateAt(/$defs/leaf): scope = [root, leaf] -> outermost is root.
	if got, err := m.ValidateAt("/$defs/leaf", leafInst); err != nil || got {
		t.Errorf("ValidateAt(leaf) = %v, %v; want false (root's anchor wins)", got, err)
	}
	m.DynRule = DynInnermost
	if got, err := m.ValidateAt("/$defs/leaf", leafInst); err != nil || !got {
		t.Errorf("ValidateAt(leaf) innermost = %v, %v; want true", got, err)
	}
	m.DynRule = DynOutermost
	// ValidateAt(/$defs/mid) with scope [root, mid, leaf]
	if got, err := m.ValidateAt("/$defs/mid", mustDecode(t, `{"v": "mid", "next": {"v": "leaf"}}`)); err != nil || !got {
		t.Errorf("ValidateAt(mid) = %v, %v; want true", got, err)
	}
	if got, err := m.ValidateAt("/$defs/mid/properties/v", mustDecode(t, `"leaf"`)); err != nil || got {
		t.Errorf("ValidateAt(mid/properties/v) = %v, %v; want false", got, err)
	}
	ptrs := m.SchemaPointers()
	if len(ptrs) != 8 || ptrs[0] != "" {
		t.Errorf("SchemaPointers = %q", ptrs)
	}
	for _, p := range ptrs {
		if _, err := m.ValidateAt(p, nil); err != nil {
			t.Errorf("ValidateAt(%q): %v", p, err)
		}
	}
}

func TestUnevaluatedAnnotations(t *testing.T) {
	for _, c := range []struct {
		schema, inst string
		want         bool
	}{
		// annotations of failed subschemas are dropped
		{`{"anyOf": [{"properties": {"a": true}, "required": ["zz"]}, {"properties": {"b": true}}], "unevaluatedProperties": false}`, `{"a": 1, "b": 1}`, false},
		{`{"anyOf": [{"properties": {"a": true}}, {"properties": {"b": true}}], "unevaluatedProperties": false}`, `{"a": 1, "b": 1}`, true},
		{`{"oneOf": [{"properties": {"a": true}, "required": ["a"]}, {"properties": {"b": true}, "required": ["b"]}], "unevaluatedProperties": false}`, `{"a": 1}`, true},
		{`{"not": {"not": {"properties": {"a": true}}}, "unevaluatedProperties": false}`, `{"a": 1}`, false},
		{`{"if": {"properties": {"a": true}, "required": ["a"]}, "unevaluatedProperties": false}`, `{"a": 1}`, true},
		{`{"if": {"properties": {"a": true}, "required": ["zz"]}, "else": {"properties": {"b": true}}, "unevaluatedProperties": false}`, `{"a": 1}`, false},
		{`{"if": {"properties": {"a": true}, "required": ["zz"]}, "else": {"properties": {"b": true}}, "unevaluatedProperties": false}`, `{"b": 1}`, true},
		{`{"dependentSchemas": {"a": {"properties": {"b": true}}}, "properties": {"a": true}, "unevaluatedProperties": false}`, `{"a": 1, "b": 1}`, true},
		{`{"$ref": "#/$defs/r", "$defs": {"r": {"patternProperties": {"^a": true}}}, "unevaluatedProperties": false}`, `{"ab": 1}`, true},
		{`{"$ref": "#/$defs/r", "$defs": {"r": {"patternProperties": {"^a": true}}}, "unevaluatedProperties": false}`, `{"b": 1}`, false},
		// nested unevaluatedProperties marks everything
		{`{"allOf": [{"unevaluatedProperties": true}], "unevaluatedProperties": false}`, `{"x": 1}`, true},
		// additionalProperties only sees its own siblings
		{`{"allOf": [{"properties": {"a": true}}], "additionalProperties": false}`, `{"a": 1}`, false},
		// cousins do not see each other
		{`{"allOf": [{"properties": {"a": true}}, {"unevaluatedProperties": false}]}`, `{"a": 1}`, false},
		// items
		{`{"prefixItems": [true], "unevaluatedItems": false}`, `[1]`, true},
		{`{"prefixItems": [true], "unevaluatedItems": false}`, `[1, 2]`, false},
		{`{"allOf": [{"prefixItems": [true, true]}], "prefixItems": [true], "unevaluatedItems": false}`, `[1, 2]`, true},
		{`{"contains": {"const": 1}, "unevaluatedItems": {"const": 2}}`, `[1, 2, 1, 2]`, true},
		{`{"contains": {"const": 1}, "unevaluatedItems": {"const": 2}}`, `[1, 3]`, false},
		{`{"anyOf": [{"items": true}, false], "unevaluatedItems": false}`, `[1, 2]`, true},
		{`{"allOf": [{"unevaluatedItems": true}], "unevaluatedItems": false}`, `[1]`, true},
		{`{"oneOf": [{"prefixItems": [true]}, {"prefixItems": [true, true]}], "unevaluatedItems": false}`, `[1]`, false},
	} {
		m := build(t, &Universe{Root: mustDecode(t, c.schema)})
		if got, err := m.Validate(mustDecode(t, c.inst)); err != nil || got != c.want {
			t.Errorf("%s on %s = %v, %v; want %v", c.schema, c.inst, got, err, c.want)
		}
	}
}

func TestTrace(t *testing.T) {
	m := build(t, &Universe{
		BaseURI: "http://x/s.json",
		Root: mustDecode(t, `{
			"type": "object",
			"minimum": 3,
			"properties": {"a": {"type": "integer", "minimum": 3, "maxLength": 1}, "zz": false},
			"allOf": [{"required": ["a"]}, {"$ref": "#/$defs/n~1m"}],
			"$defs": {"n/m": {"maxProperties": 1}},
			"if": {"minProperties": 5}, "then": false, "else": {"propertyNames": {"pattern": "^."}},
			"unevaluatedProperties": {"const": 1}
		}`),
	})
	var got []string
	m.Trace = func(e Event) {
		got = append(got, fmt.Sprintf("%s %s @%s %v", e.Keyword, strings.TrimPrefix(e.SchemaLoc, "http://x/s.json"), e.InstLoc, e.OK))
	}
	valid, err := m.Validate(mustDecode(t, `{"a": 2, "b/c": 1}`))
	if err != nil || valid {
		t.Fatalf("Validate = %v, %v", valid, err)
	}
	want := []string{
		"type # @ true",
		"required #/allOf/0 @ true",
		"maxProperties #/$defs/n~1m @ false",
		"$ref #/allOf/1 @ false",
		"allOf # @ false",
		"minProperties #/if @ false",
		"if # @ false",
		"pattern #/else/propertyNames @/a true",
		"pattern #/else/propertyNames @/b~1c true",
		"propertyNames #/else @ true",
		"else # @ true",
		"type #/properties/a @/a true",
		"minimum #/properties/a @/a false",
		"properties # @ false",
		"const #/unevaluatedProperties @/b~1c true",
		"unevaluatedProperties # @ true",
	}
	if !reflect.DeepEqual(got, want) {
		t.Errorf("trace:\n got  %s\n want %s", strings.Join(got, "\n      "), strings.Join(want, "\n      "))
	}
}

func BenchmarkValidateSmall(b *testing.B) {
	m, err := Build(&Universe{Root: mustDecode(b, `{
		"type": "object",
		"properties": {
			"name": {"type": "string", "minLength": 1, "pattern": "^[a-z]+$"},
			"age": {"type": "integer", "minimum": 0, "maximum": 150},
			"tags": {"type": "array", "items": {"$ref": "#/$defs/tag"}, "uniqueItems": true}
		},
		"required": ["name"],
		"$defs": {"tag": {"enum": ["a", "b", "c"]}},
		"unevaluatedProperties": false
	}`)})
	if err != nil {
		b.Fatal(err)
	}
	inst := mustDecode(b, `{"name": "bob", "age": 42, "tags": ["a", "c"]}`)
	b.ResetTimer()
	for i := 0; i < b.N; i++ {
		if ok, err := m.Validate(inst); !ok || err != nil {
			b.Fatal(ok, err)
		}
	}
}

package refmodel

import (
	"errors"
	"fmt"
	"strings"
)

// This file implements RFC 3986 reference resolution on strings: the generic
// component split of appendix B, section 5.2.2 (transform references),
// 5.2.3 (merge paths), 5.2.4 (remove dot segments) and 5.3 (recomposition).

// errBadEscape is returned (wrapped) when a '%' is not followed by two hex digits.
var errBadEscape = errors.New("malformed percent escape")

// errURISyntax is returned (wrapped) for every other syntax problem.
var errURISyntax = errors.New("invalid URI syntax")

// uriParts is a URI reference split into its five generic components.
// A component can be present-but-empty ("http://a?#"), hence the has* flags;
// path is always defined.
type uriParts struct {
	scheme       string
	hasScheme    bool
	authority    string
	hasAuthority bool
	path         string
	query        string
	hasQuery     bool
	fragment     string
	hasFragment  bool
}

// parseURI splits s the way the appendix B regular expression does and applies
// a small amount of validation (control characters, blanks outside the
// fragment, percent escapes, scheme syntax).
func parseURI(s string) (uriParts, error) {
	var p uriParts
	for i := 0; i < len(s); i++ {
		c := s[i]
		if c < 0x20 || c == 0x7f {
			return p, fmt.Errorf("%w: control character in %q", errURISyntax, s)
		}
		if c == '%' {
			if i+2 >= len(s) || !isHex(s[i+1]) || !isHex(s[i+2]) {
				return p, fmt.Errorf("%w in %q", errBadEscape, s)
			}
		}
	}
	rest := s
	if i := strings.IndexByte(rest, '#'); i >= 0 {
		p.fragment, p.hasFragment = rest[i+1:], true
		rest = rest[:i]
	}
	if strings.IndexByte(rest, ' ') >= 0 {
		return p, fmt.Errorf("%w: blank in %q", errURISyntax, s)
	}
	if i := strings.IndexByte(rest, '?'); i >= 0 {
		p.query, p.hasQuery = rest[i+1:], true
		rest = rest[:i]
	}
	// scheme = everything before the first ':' provided no '/' comes first.
	if i := strings.IndexAny(rest, ":/"); i >= 0 && rest[i] == ':' {
		if !validScheme(rest[:i]) {
			// Not a scheme, and a relative-path reference must not have a
			// colon in its first segment (RFC 3986 section 4.2).
			return p, fmt.Errorf("%w: colon in first path segment of %q", errURISyntax, s)
		}
		p.scheme, p.hasScheme = rest[:i], true
		rest = rest[i+1:]
	}
	if strings.HasPrefix(rest, "//") {
		rest = rest[2:]
		end := strings.IndexByte(rest, '/')
		if end < 0 {
			end = len(rest)
		}
		p.authority, p.hasAuthority = rest[:end], true
		rest = rest[end:]
	}
	p.path = rest
	return p, nil
}

func isHex(c byte) bool {
	return '0' <= c && c <= '9' || 'a' <= c && c <= 'f' || 'A' <= c && c <= 'F'
}

func isAlpha(c byte) bool { return 'a' <= c && c <= 'z' || 'A' <= c && c <= 'Z' }

func validScheme(s string) bool {
	if s == "" || !isAlpha(s[0]) {
		return false
	}
	for i := 1; i < len(s); i++ {
		c := s[i]
		if !(isAlpha(c) || '0' <= c && c <= '9' || c == '+' || c == '-' || c == '.') {
			return false
		}
	}
	return true
}

// String recomposes the components (RFC 3986 section 5.3).
func (p uriParts) String() string {
	var b strings.Builder
	if p.hasScheme {
		b.WriteString(p.scheme)
		b.WriteByte(':')
	}
	if p.hasAuthority {
		b.WriteString("//")
		b.WriteString(p.authority)
	}
	b.WriteString(p.path)
	if p.hasQuery {
		b.WriteByte('?')
		b.WriteString(p.query)
	}
	if p.hasFragment {
		b.WriteByte('#')
		b.WriteString(p.fragment)
	}
	return b.String()
}

// ResolveURI resolves the URI reference ref against base following RFC 3986
// section 5.2 in strict mode. base is not required to be absolute: the
// algorithm is applied to whatever components it has (so with base "" the
// result of a relative reference is still a relative reference). A fragment on
// base is ignored, as the RFC prescribes.
func ResolveURI(base, ref string) (string, error) {
	b, err := parseURI(base)
	if err != nil {
		return "", fmt.Errorf("base: %w", err)
	}
	r, err := parseURI(ref)
	if err != nil {
		return "", err
	}
	return transform(b, r).String(), nil
}

// transform is the pseudocode of section 5.2.2.
func transform(b, r uriParts) uriParts {
	var t uriParts
	switch {
	case r.hasScheme:
		t.scheme, t.hasScheme = r.scheme, true
		t.authority, t.hasAuthority = r.authority, r.hasAuthority
		t.path = removeDotSegments(r.path)
		t.query, t.hasQuery = r.query, r.hasQuery
	case r.hasAuthority:
		t.authority, t.hasAuthority = r.authority, true
		t.path = removeDotSegments(r.path)
		t.query, t.hasQuery = r.query, r.hasQuery
		t.scheme, t.hasScheme = b.scheme, b.hasScheme
	default:
		if r.path == "" {
			t.path = b.path
			if r.hasQuery {
				t.query, t.hasQuery = r.query, true
			} else {
				t.query, t.hasQuery = b.query, b.hasQuery
			}
		} else {
			if strings.HasPrefix(r.path, "/") {
				t.path = removeDotSegments(r.path)
			} else {
				t.path = removeDotSegments(mergePaths(b, r.path))
			}
			t.query, t.hasQuery = r.query, r.hasQuery
		}
		t.authority, t.hasAuthority = b.authority, b.hasAuthority
		t.scheme, t.hasScheme = b.scheme, b.hasScheme
	}
	t.fragment, t.hasFragment = r.fragment, r.hasFragment
	return t
}

// mergePaths is section 5.2.3.
func mergePaths(b uriParts, refPath string) string {
	if b.hasAuthority && b.path == "" {
		return "/" + refPath
	}
	if i := strings.LastIndexByte(b.path, '/'); i >= 0 {
		return b.path[:i+1] + refPath
	}
	return refPath
}

// removeDotSegments is the input/output buffer algorithm of section 5.2.4.
func removeDotSegments(in string) string {
	var out []byte
	for len(in) > 0 {
		switch {
		// A
		case strings.HasPrefix(in, "../"):
			in = in[3:]
		case strings.HasPrefix(in, "./"):
			in = in[2:]
		// B
		case strings.HasPrefix(in, "/./"):
			in = in[2:]
		case in == "/.":
			in = "/"
		// C
		case strings.HasPrefix(in, "/../"):
			in = in[3:]
			out = dropLastSegment(out)
		case in == "/..":
			in = "/"
			out = dropLastSegment(out)
		// D
		case in == "." || in == "..":
			in = ""
		// E
		default:
			end := len(in)
			if i := strings.IndexByte(in[1:], '/'); i >= 0 {
				end = i + 1
			}
			out = append(out, in[:end]...)
			in = in[end:]
		}
	}
	return string(out)
}

func dropLastSegment(out []byte) []byte {
	for i := len(out) - 1; i >= 0; i-- {
		if out[i] == '/' {
			return out[:i]
		}
	}
	return out[:0]
}

// splitFragment splits a URI at its first '#'. The '#' is dropped.
func splitFragment(u string) (abs, frag string) {
	if i := strings.IndexByte(u, '#'); i >= 0 {
		return u[:i], u[i+1:]
	}
	return u, ""
}

// percentDecode decodes %XX sequences.
func percentDecode(s string) (string, error) {
	if strings.IndexByte(s, '%') < 0 {
		return s, nil
	}
	out := make([]byte, 0, len(s))
	for i := 0; i < len(s); i++ {
		c := s[i]
		if c != '%' {
			out = append(out, c)
			continue
		}
		if i+2 >= len(s) || !isHex(s[i+1]) || !isHex(s[i+2]) {
			return "", fmt.Errorf("%w in %q", errBadEscape, s)
		}
		out = append(out, unhex(s[i+1])<<4|unhex(s[i+2]))
		i += 2
	}
	return string(out), nil
}

func unhex(c byte) byte {
	switch {
	case c <= '9':
		return c - '0'
	case c >= 'a':
		return c - 'a' + 10
	default:
		return c - 'A' + 10
	}
}

// isOpaque reports whether p has a scheme but is not hierarchical in the
// "//authority/path" or "scheme:/path" sense (urn:..., mailto:..., tag:...).
func (p uriParts) isOpaque() bool {
	return p.hasScheme && !p.hasAuthority && !strings.HasPrefix(p.path, "/")
}

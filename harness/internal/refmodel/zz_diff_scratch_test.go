package refmodel

import (
	"encoding/json"
	"os"
	"testing"
)

func TestScratchDiff(t *testing.T) {
	path := os.Getenv("REFDIFF")
	if path == "" {
		t.Skip()
	}
	arr := readJSONFile(t, path).([]any)
	mism, total, derr := 0, 0, 0
	for _, g := range arr {
		group := g.(map[string]any)
		d := D2020
		if group["draft"].(json.Number) == "7" {
			d = D7
		}
		m, err := Build(&Universe{Draft: d, Root: group["schema"]})
		if err != nil {
			s, _ := json.Marshal(group["schema"])
			t.Errorf("Build: %v\n%s", err, s)
			continue
		}
		for _, c := range group["tests"].([]any) {
			tc := c.(map[string]any)
			total++
			got, err := m.Validate(tc["data"])
			if err != nil {
				derr++
				continue
			}
			if got != tc["valid"].(bool) {
				mism++
				if mism < 8 {
					s, _ := json.Marshal(group["schema"])
					i, _ := json.Marshal(tc["data"])
					t.Errorf("draft %v mismatch: model=%v python=%v\nschema %s\ninst %s", group["draft"], got, tc["valid"], s, i)
				}
			}
		}
	}
	t.Logf("total %d, mismatches %d, domain errors %d", total, mism, derr)
}

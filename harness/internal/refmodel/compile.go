package refmodel

import (
	"encoding/json"
	"math"
	"math/big"
	"regexp"
)

// keywords is the checked, ready-to-evaluate form of one schema object. Only
// keywords that mean something in the model's draft are filled in.
type keywords struct {
	hasRef    bool
	refStr    string
	ref       *node
	hasDynRef bool
	dynRefStr string
	dynRef    *node
	dynName   string // anchor name to search in the dynamic scope, "" = behave like $ref

	types    []string
	hasType  bool
	enum     []any
	hasEnum  bool
	constant any
	hasConst bool

	multipleOf, minimum, maximum, exclusiveMinimum, exclusiveMaximum *big.Rat

	minLength, maxLength *int64
	pattern              *pattern

	allOf, anyOf, oneOf          []*node
	hasAllOf, hasAnyOf, hasOneOf bool
	not, ifS, thenS, elseS       *node

	prefixItems              []*node // 2020-12 prefixItems, draft-07 array-form items
	hasPrefix                bool
	prefixKeyword            string // "prefixItems" or "items"
	items                    *node  // applies after the prefix: 2020-12 items, draft-07 schema-form items / additionalItems
	itemsKeyword             string
	contains                 *node
	minContains, maxContains *int64
	minItems, maxItems       *int64
	uniqueItems              bool
	unevaluatedItems         *node

	properties            []namedNode // sorted by name
	propIndex             map[string]*node
	hasProperties         bool
	patternProperties     []patternNode // sorted by pattern text
	hasPatternProperties  bool
	additionalProperties  *node
	propertyNames         *node
	minProps, maxProps    *int64
	required              []string
	hasRequired           bool
	dependentRequired     []namedList // sorted by name; draft-07: array entries of dependencies
	hasDependentRequired  bool
	dependentSchemas      []namedNode // sorted by name; draft-07: schema entries of dependencies
	hasDependentSchemas   bool
	hasDependencies       bool // draft-07 "dependencies" present (reported as one keyword)
	unevaluatedProperties *node
}

type namedNode struct {
	name string
	n    *node
}

type namedList struct {
	name  string
	names []string
}

type pattern struct {
	src string
	re  *regexp.Regexp
	err error // compile error, reported as DomainError when the pattern is needed
}

type patternNode struct {
	pattern
	n *node
}

func newPattern(src string) pattern {
	re, err := regexp.Compile(src)
	return pattern{src: src, re: re, err: err}
}

// compile checks the shape of the keywords of schema object n and fills
// n.kw. Subschema nodes already exist. Malformed values are a DomainError:
// the model does not decide what an implementation should do with them.
func (b *builder) compile(n *node) error {
	if n.boolean {
		return nil
	}
	c := &compiler{n: n, d7: b.u.Draft == D7}
	k := &keywords{}
	n.kw = k
	obj := n.obj

	if v, has := obj["$ref"]; has {
		s, ok := v.(string)
		if !ok {
			return c.bad("$ref", "a string")
		}
		k.hasRef, k.refStr = true, s
	}
	if n.refOnly {
		return nil
	}
	if v, has := obj["$dynamicRef"]; has && !c.d7 {
		s, ok := v.(string)
		if !ok {
			return c.bad("$dynamicRef", "a string")
		}
		k.hasDynRef, k.dynRefStr = true, s
	}

	// --- any instance
	if v, has := obj["type"]; has {
		k.hasType = true
		switch t := v.(type) {
		case string:
			k.types = []string{t}
		case []any:
			for _, e := range t {
				s, ok := e.(string)
				if !ok {
					return c.bad("type", "a string or an array of strings")
				}
				k.types = append(k.types, s)
			}
		default:
			return c.bad("type", "a string or an array of strings")
		}
		for _, t := range k.types {
			switch t {
			case "null", "boolean", "object", "array", "number", "string", "integer":
			default:
				return c.bad("type", "made of the seven primitive type names")
			}
		}
	}
	if v, has := obj["enum"]; has {
		arr, ok := v.([]any)
		if !ok {
			return c.bad("enum", "an array")
		}
		if err := checkValue(arr); err != nil {
			return domainErrf("%s: enum: %v", n.loc, err)
		}
		k.hasEnum, k.enum = true, arr
	}
	if v, has := obj["const"]; has {
		if err := checkValue(v); err != nil {
			return domainErrf("%s: const: %v", n.loc, err)
		}
		k.hasConst, k.constant = true, v
	}

	// --- numbers
	k.multipleOf = c.number("multipleOf")
	if k.multipleOf != nil && k.multipleOf.Sign() <= 0 {
		return c.bad("multipleOf", "greater than 0")
	}
	k.minimum = c.number("minimum")
	k.maximum = c.number("maximum")
	k.exclusiveMinimum = c.number("exclusiveMinimum")
	k.exclusiveMaximum = c.number("exclusiveMaximum")

	// --- strings
	k.minLength = c.count("minLength")
	k.maxLength = c.count("maxLength")
	if v, has := obj["pattern"]; has {
		s, ok := v.(string)
		if !ok {
			return c.bad("pattern", "a string")
		}
		p := newPattern(s)
		k.pattern = &p
	}

	// --- in-place applicators
	k.allOf, k.hasAllOf = c.schemaArray("allOf")
	k.anyOf, k.hasAnyOf = c.schemaArray("anyOf")
	k.oneOf, k.hasOneOf = c.schemaArray("oneOf")
	k.not = c.schema("not")
	k.ifS = c.schema("if")
	k.thenS = c.schema("then")
	k.elseS = c.schema("else")

	// --- arrays
	if c.d7 {
		if v, has := obj["items"]; has {
			if _, isArr := v.([]any); isArr {
				k.prefixItems, k.hasPrefix = c.schemaArray("items")
				k.prefixKeyword = "items"
				k.items, k.itemsKeyword = c.schema("additionalItems"), "additionalItems"
			} else {
				k.items, k.itemsKeyword = c.schema("items"), "items"
			}
		}
	} else {
		k.prefixItems, k.hasPrefix = c.schemaArray("prefixItems")
		k.prefixKeyword = "prefixItems"
		if v, has := obj["items"]; has {
			if _, isArr := v.([]any); isArr {
				return c.bad("items", "a schema (the array form does not exist in 2020-12)")
			}
		}
		k.items, k.itemsKeyword = c.schema("items"), "items"
		k.unevaluatedItems = c.schema("unevaluatedItems")
	}
	k.contains = c.schema("contains")
	if !c.d7 {
		k.minContains = c.count("minContains")
		k.maxContains = c.count("maxContains")
	}
	k.minItems = c.count("minItems")
	k.maxItems = c.count("maxItems")
	if v, has := obj["uniqueItems"]; has {
		bv, ok := v.(bool)
		if !ok {
			return c.bad("uniqueItems", "a boolean")
		}
		k.uniqueItems = bv
	}

	// --- objects
	k.properties, k.hasProperties = c.schemaMap("properties")
	if k.hasProperties {
		k.propIndex = make(map[string]*node, len(k.properties))
		for _, p := range k.properties {
			k.propIndex[p.name] = p.n
		}
	}
	if pp, has := c.schemaMap("patternProperties"); has {
		k.hasPatternProperties = true
		for _, p := range pp {
			k.patternProperties = append(k.patternProperties, patternNode{newPattern(p.name), p.n})
		}
	}
	k.additionalProperties = c.schema("additionalProperties")
	k.propertyNames = c.schema("propertyNames")
	k.minProps = c.count("minProperties")
	k.maxProps = c.count("maxProperties")
	if _, has := obj["required"]; has {
		k.hasRequired = true
		k.required = c.stringArray("required", obj["required"])
	}
	if c.d7 {
		if v, has := obj["dependencies"]; has {
			k.hasDependencies = true
			m, _ := v.(map[string]any) // the indexer verified the shape
			for _, name := range sortedKeys(m) {
				if list, isArr := m[name].([]any); isArr {
					k.dependentRequired = append(k.dependentRequired, namedList{name, c.stringArray("dependencies", list)})
				} else {
					k.dependentSchemas = append(k.dependentSchemas, namedNode{name, n.child("dependencies", name)})
				}
			}
		}
	} else {
		if v, has := obj["dependentRequired"]; has {
			k.hasDependentRequired = true
			m, ok := v.(map[string]any)
			if !ok {
				return c.bad("dependentRequired", "an object of string arrays")
			}
			for _, name := range sortedKeys(m) {
				k.dependentRequired = append(k.dependentRequired, namedList{name, c.stringArray("dependentRequired", m[name])})
			}
		}
		k.dependentSchemas, k.hasDependentSchemas = c.schemaMap("dependentSchemas")
		k.unevaluatedProperties = c.schema("unevaluatedProperties")
	}
	if c.err != nil {
		return c.err
	}
	if k.unevaluatedItems != nil || k.unevaluatedProperties != nil {
		b.m.annotated = true
	}
	return nil
}

// compiler collects the first shape error so that the keyword-by-keyword code
// above stays linear.
type compiler struct {
	n   *node
	d7  bool
	err error
}

func (c *compiler) bad(kw, want string) error {
	err := domainErrf("%s: value of %q is not %s", c.n.loc, kw, want)
	if c.err == nil {
		c.err = err
	}
	return err
}

func (c *compiler) number(kw string) *big.Rat {
	v, has := c.n.obj[kw]
	if !has {
		return nil
	}
	num, ok := v.(json.Number)
	if !ok {
		c.bad(kw, "a number")
		return nil
	}
	r, err := parseNumber(num)
	if err != nil {
		c.bad(kw, "a supported number")
		return nil
	}
	return r
}

// count reads a non-negative integer keyword ("2.0" is fine). Values beyond
// int64 are clamped, which cannot change any comparison with a real length.
func (c *compiler) count(kw string) *int64 {
	r := c.number(kw)
	if r == nil {
		return nil
	}
	if !r.IsInt() || r.Sign() < 0 {
		c.bad(kw, "a non-negative integer")
		return nil
	}
	v := int64(math.MaxInt64)
	if r.Num().IsInt64() {
		v = r.Num().Int64()
	}
	return &v
}

func (c *compiler) schema(kw string) *node {
	if _, has := c.n.obj[kw]; !has {
		return nil
	}
	return c.n.child(kw)
}

func (c *compiler) schemaArray(kw string) ([]*node, bool) {
	v, has := c.n.obj[kw]
	if !has {
		return nil, false
	}
	arr, _ := v.([]any) // the indexer verified the shape
	out := make([]*node, len(arr))
	for i := range arr {
		out[i] = c.n.child(kw, itoa(i))
	}
	return out, true
}

func (c *compiler) schemaMap(kw string) ([]namedNode, bool) {
	v, has := c.n.obj[kw]
	if !has {
		return nil, false
	}
	m, _ := v.(map[string]any) // the indexer verified the shape
	out := make([]namedNode, 0, len(m))
	for _, name := range sortedKeys(m) {
		out = append(out, namedNode{name, c.n.child(kw, name)})
	}
	return out, true
}

func (c *compiler) stringArray(kw string, v any) []string {
	arr, ok := v.([]any)
	if !ok {
		c.bad(kw, "an array of strings")
		return nil
	}
	out := make([]string, len(arr))
	for i, e := range arr {
		s, ok := e.(string)
		if !ok {
			c.bad(kw, "an array of strings")
			return nil
		}
		out[i] = s
	}
	return out
}

func itoa(i int) string {
	if i < 10 {
		return string(rune('0' + i))
	}
	return itoa(i/10) + string(rune('0'+i%10))
}

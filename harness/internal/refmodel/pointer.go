package refmodel

import (
	"fmt"
	"strings"
)

// posClass says what kind of value a keyword holds as far as locating
// subschemas is concerned.
type posClass int

const (
	posNone          posClass = iota // not a schema position (unknown keyword, enum, const, ...)
	posSchema                        // the value is a schema
	posSchemaOrArray                 // the value is a schema or an array of schemas ("items")
	posArray                         // the value is an array of schemas
	posMap                           // the value is an object whose members are schemas
	posDeps                          // like posMap, but members may also be arrays of strings ("dependencies")
)

// keywordClass lists every keyword whose value contains subschemas. The table
// is the same for both drafts: a keyword that has no meaning in the draft
// being evaluated is still a place where schemas (and therefore identifiers
// and references) live.
var keywordClass = map[string]posClass{
	"additionalProperties":  posSchema,
	"propertyNames":         posSchema,
	"unevaluatedProperties": posSchema,
	"contains":              posSchema,
	"unevaluatedItems":      posSchema,
	"not":                   posSchema,
	"if":                    posSchema,
	"then":                  posSchema,
	"else":                  posSchema,
	"contentSchema":         posSchema,
	"additionalItems":       posSchema,

	"items": posSchemaOrArray,

	"prefixItems": posArray,
	"allOf":       posArray,
	"anyOf":       posArray,
	"oneOf":       posArray,

	"properties":        posMap,
	"patternProperties": posMap,
	"dependentSchemas":  posMap,
	"$defs":             posMap,
	"definitions":       posMap,

	"dependencies": posDeps,
}

// isSchema reports whether v has the shape of a schema: a boolean or an object.
func isSchema(v any) bool {
	switch v.(type) {
	case bool, map[string]any:
		return true
	}
	return false
}

// splitPointer splits an RFC 6901 JSON pointer into unescaped reference
// tokens. "" is the empty pointer (no tokens). The only escapes are ~0 and ~1.
func splitPointer(ptr string) ([]string, error) {
	if ptr == "" {
		return nil, nil
	}
	if ptr[0] != '/' {
		return nil, fmt.Errorf("JSON pointer %q does not start with '/'", ptr)
	}
	parts := strings.Split(ptr[1:], "/")
	for i, p := range parts {
		if strings.IndexByte(p, '~') < 0 {
			continue
		}
		var b strings.Builder
		for j := 0; j < len(p); j++ {
			if p[j] != '~' {
				b.WriteByte(p[j])
				continue
			}
			if j+1 >= len(p) {
				return nil, fmt.Errorf("JSON pointer %q: '~' at end of token", ptr)
			}
			switch p[j+1] {
			case '0':
				b.WriteByte('~')
			case '1':
				b.WriteByte('/')
			default:
				return nil, fmt.Errorf("JSON pointer %q: invalid escape ~%c", ptr, p[j+1])
			}
			j++
		}
		parts[i] = b.String()
	}
	return parts, nil
}

// escapeToken is the inverse of the unescaping done by splitPointer.
func escapeToken(tok string) string {
	if strings.IndexAny(tok, "~/") < 0 {
		return tok
	}
	tok = strings.ReplaceAll(tok, "~", "~0")
	return strings.ReplaceAll(tok, "/", "~1")
}

// arrayIndex parses an RFC 6901 array index: "0" or a digit string without a
// leading zero. n is the array length.
func arrayIndex(tok string, n int) (int, error) {
	if tok == "" {
		return 0, fmt.Errorf("empty array index")
	}
	if tok[0] == '0' && len(tok) > 1 {
		return 0, fmt.Errorf("array index %q has a leading zero", tok)
	}
	idx := 0
	for i := 0; i < len(tok); i++ {
		if !isDigit(tok[i]) {
			return 0, fmt.Errorf("%q is not an array index", tok)
		}
		idx = idx*10 + int(tok[i]-'0')
		if idx >= n {
			return 0, fmt.Errorf("array index %s out of range (length %d)", tok, n)
		}
	}
	return idx, nil
}

// evalPointer evaluates ptr starting at the schema root, walking only through
// schema positions: from a schema object the next token must be a keyword of
// keywordClass, followed (depending on the class) by an array index or a
// member name, which leads to the next schema. The value reached must itself
// be in a schema position and be a boolean or an object.
func evalPointer(root any, ptr string) (any, error) {
	toks, err := splitPointer(ptr)
	if err != nil {
		return nil, err
	}
	if !isSchema(root) {
		return nil, fmt.Errorf("pointer %q: start value is not a schema", ptr)
	}
	cur := root
	for i := 0; i < len(toks); {
		obj, ok := cur.(map[string]any)
		if !ok {
			return nil, fmt.Errorf("pointer %q: cannot descend into a non-object schema at token %d", ptr, i)
		}
		kw := toks[i]
		class := keywordClass[kw]
		if class == posNone {
			return nil, fmt.Errorf("pointer %q: %q is not a keyword that holds subschemas", ptr, kw)
		}
		val, present := obj[kw]
		if !present {
			return nil, fmt.Errorf("pointer %q: keyword %q not present", ptr, kw)
		}
		i++
		if class == posSchemaOrArray {
			if _, isArr := val.([]any); isArr {
				class = posArray
			} else {
				class = posSchema
			}
		}
		switch class {
		case posSchema:
			cur = val
		case posArray:
			arr, ok := val.([]any)
			if !ok {
				return nil, fmt.Errorf("pointer %q: value of %q is not an array", ptr, kw)
			}
			if i >= len(toks) {
				return nil, fmt.Errorf("pointer %q ends at the array of %q, which is not a schema", ptr, kw)
			}
			idx, err := arrayIndex(toks[i], len(arr))
			if err != nil {
				return nil, fmt.Errorf("pointer %q: %v", ptr, err)
			}
			cur = arr[idx]
			i++
		case posMap, posDeps:
			m, ok := val.(map[string]any)
			if !ok {
				return nil, fmt.Errorf("pointer %q: value of %q is not an object", ptr, kw)
			}
			if i >= len(toks) {
				return nil, fmt.Errorf("pointer %q ends at the member map of %q, which is not a schema", ptr, kw)
			}
			next, present := m[toks[i]]
			if !present {
				return nil, fmt.Errorf("pointer %q: %q has no member %q", ptr, kw, toks[i])
			}
			cur = next
			i++
		}
		if !isSchema(cur) {
			return nil, fmt.Errorf("pointer %q: value reached after token %d is not a schema", ptr, i-1)
		}
	}
	return cur, nil
}

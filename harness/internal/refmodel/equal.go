package refmodel

import (
	"bytes"
	"encoding/json"
	"fmt"
	"io"
	"math/big"
	"strconv"
	"strings"
)

// DecodeJSON decodes exactly one JSON value with UseNumber semantics, so the
// result consists of nil, bool, json.Number, string, []any and map[string]any.
// Anything but white space after the value is an error.
func DecodeJSON(data []byte) (any, error) {
	dec := json.NewDecoder(bytes.NewReader(data))
	dec.UseNumber()
	var v any
	if err := dec.Decode(&v); err != nil {
		return nil, err
	}
	if _, err := dec.Token(); err != io.EOF {
		return nil, fmt.Errorf("refmodel: trailing data after JSON value")
	}
	return v, nil
}

// maxExponent bounds the decimal exponent accepted in number literals so that
// converting to an exact rational cannot blow up memory.
const maxExponent = 10000

// parseNumber converts the text of a JSON number into an exact rational.
func parseNumber(n json.Number) (*big.Rat, error) {
	if err := checkNumberText(string(n)); err != nil {
		return nil, err
	}
	r, ok := new(big.Rat).SetString(string(n))
	if !ok {
		return nil, fmt.Errorf("%q is not a JSON number", string(n))
	}
	return r, nil
}

// checkNumberText verifies that s follows the JSON number grammar and has an
// exponent the model is willing to expand.
func checkNumberText(s string) error {
	if !validNumberText(s) {
		return fmt.Errorf("%q is not a JSON number", s)
	}
	if i := strings.IndexAny(s, "eE"); i >= 0 {
		exp, err := strconv.Atoi(s[i+1:])
		if err != nil || exp > maxExponent || exp < -maxExponent {
			return fmt.Errorf("number %q: exponent not supported", s)
		}
	}
	return nil
}

// checkValue verifies that v lies inside the decoded-JSON data model.
func checkValue(v any) error {
	switch x := v.(type) {
	case nil, bool, string:
		return nil
	case json.Number:
		return checkNumberText(string(x))
	case []any:
		for _, e := range x {
			if err := checkValue(e); err != nil {
				return err
			}
		}
		return nil
	case map[string]any:
		for _, e := range x {
			if err := checkValue(e); err != nil {
				return err
			}
		}
		return nil
	}
	return fmt.Errorf("value of Go type %T is outside the JSON data model", v)
}

// validNumberText checks the JSON number grammar; big.Rat.SetString alone
// would also accept fractions ("1/2"), hex floats, underscores, etc.
func validNumberText(s string) bool {
	i := 0
	if i < len(s) && s[i] == '-' {
		i++
	}
	switch {
	case i < len(s) && s[i] == '0':
		i++
	case i < len(s) && '1' <= s[i] && s[i] <= '9':
		for i < len(s) && isDigit(s[i]) {
			i++
		}
	default:
		return false
	}
	if i < len(s) && s[i] == '.' {
		i++
		j := i
		for i < len(s) && isDigit(s[i]) {
			i++
		}
		if i == j {
			return false
		}
	}
	if i < len(s) && (s[i] == 'e' || s[i] == 'E') {
		i++
		if i < len(s) && (s[i] == '+' || s[i] == '-') {
			i++
		}
		j := i
		for i < len(s) && isDigit(s[i]) {
			i++
		}
		if i == j {
			return false
		}
	}
	return i == len(s)
}

func isDigit(c byte) bool { return '0' <= c && c <= '9' }

// Equal reports JSON-value equality: numbers by exact mathematical value
// (1, 1.0 and 10e-1 are equal), strings by code units, arrays element-wise in
// order, objects as unordered name/value sets. Values of different JSON types
// are never equal. Go values outside the decoded-JSON data model are equal to
// nothing.
func Equal(a, b any) bool {
	switch x := a.(type) {
	case nil:
		return b == nil
	case bool:
		y, ok := b.(bool)
		return ok && x == y
	case string:
		y, ok := b.(string)
		return ok && x == y
	case json.Number:
		y, ok := b.(json.Number)
		if !ok {
			return false
		}
		if x == y {
			return validNumberText(string(x))
		}
		rx, err := parseNumber(x)
		if err != nil {
			return false
		}
		ry, err := parseNumber(y)
		if err != nil {
			return false
		}
		return rx.Cmp(ry) == 0
	case []any:
		y, ok := b.([]any)
		if !ok || len(x) != len(y) {
			return false
		}
		for i := range x {
			if !Equal(x[i], y[i]) {
				return false
			}
		}
		return true
	case map[string]any:
		y, ok := b.(map[string]any)
		if !ok || len(x) != len(y) {
			return false
		}
		for k, xv := range x {
			yv, ok := y[k]
			if !ok || !Equal(xv, yv) {
				return false
			}
		}
		return true
	}
	return false
}

// Package refmodel is an independent reference evaluator for JSON Schema
// draft 2020-12 and draft-07, written from the specifications and used as a
// test oracle. It depends on the standard library only.
//
// Documents and instances are raw JSON decoded with UseNumber (see
// DecodeJSON); numbers are compared as exact rationals. Build indexes a root
// document, loads referenced documents from an in-memory "loader" and resolves
// every reference up front; Validate then evaluates instances without
// short-circuiting, optionally reporting every keyword evaluation.
//
// Files: uri.go (RFC 3986 resolution), pointer.go (JSON pointers restricted to
// schema positions), index.go (documents, resources, anchors, reference
// resolution), compile.go (keyword shapes), eval.go (evaluation), equal.go
// (JSON values).
package refmodel

import (
	"errors"
	"fmt"
	"reflect"
	"sort"
	"strings"
)

// Draft selects the dialect used for every document of a Universe.
type Draft int

const (
	D2020 Draft = iota // JSON Schema draft 2020-12
	D7                 // JSON Schema draft-07
)

// Universe is the complete input of Build: a root schema document plus
// everything the "loader" can serve.
type Universe struct {
	Draft    Draft           // semantics for ALL documents (root's draft)
	BaseURI  string          // retrieval URI of the root document; may be ""
	Root     any             // root schema document (bool or object)
	Docs     map[string]any  // "loader": absolute URI without fragment -> schema document
	LoadErr  map[string]bool // URIs for which the loader returns an error
	NoLoader bool            // no loader configured: any load attempt is an error
}

// ResolveError means a correct implementation must reject the schema while
// resolving it: a reference designates nothing, a load fails, or an
// identifier / JSON pointer is invalid.
type ResolveError struct{ Msg string }

func (e *ResolveError) Error() string { return "refmodel: resolve error: " + e.Msg }

// DomainError means the input is outside of what the model supports or
// decides; no verdict should be derived from it.
type DomainError struct{ Msg string }

func (e *DomainError) Error() string { return "refmodel: outside model domain: " + e.Msg }

func resolveErrf(format string, a ...any) error { return &ResolveError{fmt.Sprintf(format, a...)} }
func domainErrf(format string, a ...any) error  { return &DomainError{fmt.Sprintf(format, a...)} }

// DynRule selects how $dynamicRef picks its target. Only DynOutermost is
// correct; the others model plausible implementation mistakes.
type DynRule int

const (
	DynOutermost DynRule = iota // correct: first matching dynamic anchor from the outside
	DynInnermost                // wrong: search the dynamic scope from the inside
	DynLexical                  // wrong: treat $dynamicRef like $ref
)

// Event describes one keyword evaluation; see Model.Trace.
type Event struct {
	Keyword   string // e.g. "minimum", "properties", "unevaluatedProperties", "$ref"
	SchemaLoc string // document URI + "#" + JSON pointer of the schema object holding the keyword
	InstLoc   string // JSON pointer of the instance location
	OK        bool   // keyword passed
}

// Model is an indexed, fully resolved universe, ready to validate instances.
// Validate and ValidateAt do not modify the Model, so they may be called
// concurrently as long as Trace and DynRule are not changed meanwhile.
type Model struct {
	// Trace, when non-nil, receives one Event for every keyword that applied
	// to the instance it was evaluated against (a "minimum" met by a string
	// reports nothing). Applicators report after their subschemas. For "if"
	// OK is the outcome of the condition.
	Trace func(Event)
	// DynRule is DynOutermost unless a deliberately wrong strategy is wanted.
	DynRule DynRule
	// MaxSteps, when positive, bounds the number of schema applications of one
	// Validate call; exceeding it is a DomainError (the case is not decided).
	MaxSteps int

	draft     Draft
	root      *document
	docs      map[string]*document // retrieval and canonical root URI -> document
	docList   []*document          // in load order, root first
	loads     []string
	annotated bool // some schema uses unevaluatedItems / unevaluatedProperties
	broken    bool // Build failed; only Loads is meaningful
}

// document is one JSON document holding schemas (the root or a loaded one).
type document struct {
	uri       string               // retrieval URI
	raw       any                  // decoded JSON
	nodes     map[string]*node     // JSON pointer -> schema node, every schema position of the document
	order     []*node              // the same nodes in preorder (keywords and members sorted by name)
	resources map[string]*resource // URI -> resource, this document's own table (root + embedded)
	rootRes   *resource
}

// resource is a schema resource: a document root or a subschema with its own
// identifier. Dynamic scopes are sequences of resources.
type resource struct {
	uri     string // canonical URI (retrieval URI if the root has no identifier)
	root    *node
	anchors map[string]anchor
}

type anchor struct {
	n       *node
	dynamic bool
}

// node is one schema position.
type node struct {
	doc     *document
	ptr     string // JSON pointer inside doc
	loc     string // doc.uri + "#" + ptr
	res     *resource
	base    string // base URI for references written in this schema object
	boolean bool   // the schema is true/false ...
	value   bool   // ... with this value
	obj     map[string]any
	refOnly bool // draft-07 object containing $ref: everything else is ignored
	kw      *keywords
}

// Loads returns the URIs requested from the loader, in request order,
// including a final failed one. It also works on the Model returned together
// with an error by Build.
func (m *Model) Loads() []string { return append([]string(nil), m.loads...) }

// SchemaPointers returns the JSON pointers of all schema positions of the
// root document in preorder; each of them is a valid argument of ValidateAt.
func (m *Model) SchemaPointers() []string {
	var out []string
	if m.root != nil {
		for _, n := range m.root.order {
			out = append(out, n.ptr)
		}
	}
	return out
}

// Build indexes the root document and resolves every reference of every
// document reachable from it. On failure it returns a *ResolveError or a
// *DomainError together with a non-nil Model on which only Loads may be used.
//
// Order of work: a document is indexed completely (identifiers, anchors,
// keyword shapes) when it is first seen. References are then resolved per
// document in preorder, keywords and member names in sorted order, $ref before
// $dynamicRef. When a lookup has to load a new document, that document's
// references are resolved right after the lookup finishes (depth first) and
// before the referring document continues.
func Build(u *Universe) (*Model, error) {
	b := &builder{u: u, m: &Model{draft: u.Draft, docs: map[string]*document{}, broken: true}}
	if err := b.build(); err != nil {
		return b.m, err
	}
	b.m.broken = false
	return b.m, nil
}

type builder struct {
	u *Universe
	m *Model
}

func (b *builder) build() error {
	u := b.u
	if u.Draft != D2020 && u.Draft != D7 {
		return domainErrf("unknown draft %d", u.Draft)
	}
	base := u.BaseURI
	if base != "" {
		p, err := parseURI(base)
		if err != nil {
			return domainErrf("BaseURI %q: %v", base, err)
		}
		if !p.hasScheme || p.fragment != "" {
			return domainErrf("BaseURI %q must be absolute and without fragment", base)
		}
		base, _ = splitFragment(base)
	}
	doc, err := b.indexDocument(u.Root, base)
	if err != nil {
		return err
	}
	b.m.root = doc
	if err := b.register(doc); err != nil {
		return err
	}
	return b.resolveDocument(doc)
}

// register makes doc findable by its retrieval and canonical root URI.
func (b *builder) register(doc *document) error {
	b.m.docList = append(b.m.docList, doc)
	for _, uri := range []string{doc.uri, doc.rootRes.uri} {
		if uri == "" {
			continue
		}
		if other := b.m.docs[uri]; other != nil && other != doc {
			return domainErrf("two documents claim the URI %q", uri)
		}
		b.m.docs[uri] = doc
	}
	return nil
}

// ---------------------------------------------------------------- indexing

// indexDocument creates the nodes, resources and anchors of one document and
// checks the shape of every keyword the evaluator understands.
func (b *builder) indexDocument(raw any, uri string) (*document, error) {
	if !isSchema(raw) {
		return nil, domainErrf("document <%s> is neither an object nor a boolean", uri)
	}
	doc := &document{uri: uri, raw: raw, nodes: map[string]*node{}, resources: map[string]*resource{}}
	doc.rootRes = &resource{uri: uri, anchors: map[string]anchor{}}
	doc.resources[uri] = doc.rootRes
	if err := b.walk(doc, raw, "", uri, doc.rootRes, true); err != nil {
		return nil, err
	}
	for _, n := range doc.order {
		if err := b.compile(n); err != nil {
			return nil, err
		}
	}
	return doc, nil
}

// resolveAgainst resolves the reference ref, written in a schema whose base
// URI is base, to a URI (possibly with fragment).
func resolveAgainst(base, ref, what string) (string, error) {
	r, err := parseURI(ref)
	if err != nil {
		return "", uriError(what, ref, err)
	}
	bp, err := parseURI(base)
	if err != nil {
		return "", uriError("base of "+what, base, err)
	}
	sameDocument := !r.hasScheme && !r.hasAuthority && r.path == "" && !r.hasQuery
	if !r.hasScheme && !sameDocument {
		if base == "" {
			return "", resolveErrf("%s %q is relative and there is no base URI", what, ref)
		}
		if bp.isOpaque() {
			return "", domainErrf("%s %q is relative to the non-hierarchical base %q", what, ref, base)
		}
	}
	return transform(bp, r).String(), nil
}

func uriError(what, s string, err error) error {
	if errors.Is(err, errBadEscape) {
		return resolveErrf("%s %q: %v", what, s, err)
	}
	return domainErrf("%s %q: %v", what, s, err)
}

var (
	anchorName2020 = func(s string) bool { return validAnchorName(s, false) }
	anchorNameD7   = func(s string) bool { return validAnchorName(s, true) }
)

// validAnchorName: 2020-12 ^[A-Za-z_][-A-Za-z0-9._]*$, draft-07 ^[A-Za-z][-A-Za-z0-9.:_]*$.
func validAnchorName(s string, d7 bool) bool {
	if s == "" {
		return false
	}
	for i := 0; i < len(s); i++ {
		c := s[i]
		switch {
		case isAlpha(c):
		case c == '_' && (i > 0 || !d7):
		case i > 0 && (isDigit(c) || c == '-' || c == '.'):
		case i > 0 && c == ':' && d7:
		default:
			return false
		}
	}
	return true
}

// walk visits the schema at val. base and res describe the enclosing
// resource; the schema's own identifier may replace them for itself and its
// subschemas.
func (b *builder) walk(doc *document, val any, ptr, base string, res *resource, docRoot bool) error {
	n := &node{doc: doc, ptr: ptr, loc: doc.uri + "#" + ptr}
	switch v := val.(type) {
	case bool:
		n.boolean, n.value = true, v
	case map[string]any:
		n.obj = v
	default:
		return domainErrf("%s: value in schema position is neither an object nor a boolean", n.loc)
	}
	if n.obj != nil {
		var err error
		if base, res, err = b.identify(doc, n, base, res, docRoot); err != nil {
			return err
		}
	}
	n.base, n.res = base, res
	if docRoot {
		res.root = n
	}
	doc.nodes[ptr] = n
	doc.order = append(doc.order, n)
	if n.obj == nil {
		return nil
	}

	for _, kw := range sortedKeys(n.obj) {
		class := keywordClass[kw]
		if class == posNone {
			continue
		}
		sub := n.obj[kw]
		kwPtr := ptr + "/" + escapeToken(kw)
		if class == posSchemaOrArray {
			if _, isArr := sub.([]any); isArr {
				class = posArray
			} else {
				class = posSchema
			}
		}
		switch class {
		case posSchema:
			if err := b.walk(doc, sub, kwPtr, base, res, false); err != nil {
				return err
			}
		case posArray:
			arr, ok := sub.([]any)
			if !ok {
				return domainErrf("%s: %q must be an array of schemas", n.loc, kw)
			}
			for i, e := range arr {
				if err := b.walk(doc, e, fmt.Sprintf("%s/%d", kwPtr, i), base, res, false); err != nil {
					return err
				}
			}
		case posMap, posDeps:
			m, ok := sub.(map[string]any)
			if !ok {
				return domainErrf("%s: %q must be an object of schemas", n.loc, kw)
			}
			for _, k := range sortedKeys(m) {
				if _, isArr := m[k].([]any); isArr && class == posDeps {
					continue // list of required property names
				}
				if err := b.walk(doc, m[k], kwPtr+"/"+escapeToken(k), base, res, false); err != nil {
					return err
				}
			}
		}
	}
	return nil
}

// identify processes $id, $anchor and $dynamicAnchor of the schema object n
// and returns the base URI and resource that apply to n and its subschemas.
func (b *builder) identify(doc *document, n *node, base string, res *resource, docRoot bool) (string, *resource, error) {
	d7 := b.u.Draft == D7
	if d7 {
		if _, has := n.obj["$ref"]; has {
			n.refOnly = true
			return base, res, nil
		}
	}
	if idv, has := n.obj["$id"]; has {
		id, ok := idv.(string)
		if !ok {
			return "", nil, domainErrf("%s: $id is not a string", n.loc)
		}
		if d7 && len(id) > 1 && id[0] == '#' {
			// draft-07 location-independent identifier
			name := id[1:]
			if !anchorNameD7(name) {
				return "", nil, domainErrf("%s: $id %q is not a plain-name fragment the model supports", n.loc, id)
			}
			if err := addAnchor(res, name, n, false); err != nil {
				return "", nil, err
			}
		} else {
			abs, frag := splitFragment(id)
			if frag != "" {
				return "", nil, resolveErrf("%s: $id %q has a non-empty fragment", n.loc, id)
			}
			resolved, err := resolveAgainst(base, abs, "$id")
			if err != nil {
				return "", nil, prefixErr(n.loc, err)
			}
			if p, _ := parseURI(resolved); !p.hasScheme {
				return "", nil, resolveErrf("%s: $id %q does not resolve to an absolute URI", n.loc, id)
			}
			if docRoot {
				res.uri = resolved
			} else {
				res = &resource{uri: resolved, root: n, anchors: map[string]anchor{}}
			}
			if other := doc.resources[resolved]; other != nil && other != res {
				return "", nil, domainErrf("%s: URI %q identifies two different schemas of the document", n.loc, resolved)
			}
			doc.resources[resolved] = res
			base = resolved
		}
	}
	if !d7 {
		for _, kw := range []string{"$anchor", "$dynamicAnchor"} {
			v, has := n.obj[kw]
			if !has {
				continue
			}
			name, ok := v.(string)
			if !ok || !anchorName2020(name) {
				return "", nil, domainErrf("%s: %s value is not an anchor name the model supports", n.loc, kw)
			}
			if err := addAnchor(res, name, n, kw == "$dynamicAnchor"); err != nil {
				return "", nil, err
			}
		}
	}
	return base, res, nil
}

func addAnchor(res *resource, name string, n *node, dynamic bool) error {
	if prev, dup := res.anchors[name]; dup {
		if prev.n == n {
			return domainErrf("%s: $anchor and $dynamicAnchor with the same name %q", n.loc, name)
		}
		return resolveErrf("%s: anchor %q already defined at %s in the same resource", n.loc, name, prev.n.loc)
	}
	res.anchors[name] = anchor{n: n, dynamic: dynamic}
	return nil
}

func prefixErr(loc string, err error) error {
	switch e := err.(type) {
	case *ResolveError:
		return &ResolveError{loc + ": " + e.Msg}
	case *DomainError:
		return &DomainError{loc + ": " + e.Msg}
	}
	return err
}

func sortedKeys(m map[string]any) []string {
	keys := make([]string, 0, len(m))
	for k := range m {
		keys = append(keys, k)
	}
	sort.Strings(keys)
	return keys
}

// --------------------------------------------------------------- resolving

// resolveDocument resolves every reference written in doc.
func (b *builder) resolveDocument(doc *document) error {
	for _, n := range doc.order {
		if n.kw == nil {
			continue
		}
		if n.kw.hasRef {
			t, _, err := b.lookup(n, n.kw.refStr, "$ref")
			if err != nil {
				return err
			}
			n.kw.ref = t
		}
		if n.kw.hasDynRef {
			t, frag, err := b.lookup(n, n.kw.dynRefStr, "$dynamicRef")
			if err != nil {
				return err
			}
			n.kw.dynRef = t
			if frag != "" && frag[0] != '/' && !t.boolean {
				if a, ok := t.obj["$dynamicAnchor"].(string); ok && a == frag {
					n.kw.dynName = frag
				}
			}
		}
	}
	return nil
}

// lookup finds the schema node designated by the reference ref written in
// schema n. It also returns the percent-decoded fragment of the reference.
func (b *builder) lookup(n *node, ref, what string) (*node, string, error) {
	full, err := resolveAgainst(n.base, ref, what)
	if err != nil {
		return nil, "", prefixErr(n.loc, err)
	}
	uri, rawFrag := splitFragment(full)
	frag, err := percentDecode(rawFrag)
	if err != nil {
		return nil, "", resolveErrf("%s: %s %q: %v", n.loc, what, ref, err)
	}

	var loaded *document
	res := n.doc.resources[uri]
	if res == nil {
		if d := b.m.docs[uri]; d != nil {
			res = d.rootRes
		}
	}
	if res == nil {
		if loaded, err = b.load(n, uri, what, ref); err != nil {
			return nil, "", err
		}
		res = loaded.rootRes
	}

	target, err := findInResource(res, frag)
	if err != nil {
		return nil, "", resolveErrf("%s: %s %q: %v", n.loc, what, ref, err)
	}
	if loaded != nil {
		if err := b.resolveDocument(loaded); err != nil {
			return nil, "", err
		}
	}
	return target, frag, nil
}

// load asks the "loader" for uri and indexes the answer.
func (b *builder) load(n *node, uri, what, ref string) (*document, error) {
	if p, _ := parseURI(uri); !p.hasScheme {
		return nil, resolveErrf("%s: %s %q: no schema is identified by <%s> and it is not an absolute URI that could be loaded", n.loc, what, ref, uri)
	}
	if b.u.NoLoader {
		return nil, resolveErrf("%s: %s %q: <%s> is unknown and there is no loader", n.loc, what, ref, uri)
	}
	b.m.loads = append(b.m.loads, uri)
	if b.u.LoadErr[uri] {
		return nil, resolveErrf("%s: %s %q: loading <%s> failed", n.loc, what, ref, uri)
	}
	raw, ok := b.u.Docs[uri]
	if !ok {
		return nil, resolveErrf("%s: %s %q: loader has no document <%s>", n.loc, what, ref, uri)
	}
	doc, err := b.indexDocument(raw, uri)
	if err != nil {
		return nil, err
	}
	if err := b.register(doc); err != nil {
		return nil, err
	}
	return doc, nil
}

// findInResource interprets the (decoded) fragment inside resource res.
func findInResource(res *resource, frag string) (*node, error) {
	switch {
	case frag == "":
		return res.root, nil
	case frag[0] == '/':
		if res.root.boolean {
			return nil, fmt.Errorf("JSON pointer %q into a boolean schema", frag)
		}
		val, err := evalPointer(res.root.obj, frag)
		if err != nil {
			return nil, err
		}
		// The restricted walk only passes through positions that the indexer
		// visited too, and pointer escaping is canonical, so the node is
		// found by concatenation.
		t := res.root.doc.nodes[res.root.ptr+frag]
		if t == nil || !sameValue(t, val) {
			panic(fmt.Sprintf("refmodel internal error: pointer walk and index disagree at %s + %q", res.root.loc, frag))
		}
		return t, nil
	default:
		a, ok := res.anchors[frag]
		if !ok {
			return nil, fmt.Errorf("no anchor %q in resource <%s>", frag, res.uri)
		}
		return a.n, nil
	}
}

func sameValue(n *node, v any) bool {
	if n.boolean {
		bv, ok := v.(bool)
		return ok && bv == n.value
	}
	m, ok := v.(map[string]any)
	return ok && reflect.ValueOf(m).Pointer() == reflect.ValueOf(n.obj).Pointer()
}

// child returns the node at the given path below n; the indexer created it.
func (n *node) child(tokens ...string) *node {
	var sb strings.Builder
	sb.WriteString(n.ptr)
	for _, t := range tokens {
		sb.WriteByte('/')
		sb.WriteString(escapeToken(t))
	}
	c := n.doc.nodes[sb.String()]
	if c == nil {
		panic("refmodel internal error: no node at " + n.doc.uri + "#" + sb.String())
	}
	return c
}

package refmodel

import (
	"encoding/json"
	"fmt"
	"math/big"
	"sort"
	"unicode/utf8"
)

// Validate evaluates inst against the root schema. The error, if any, is a
// *DomainError: the instance is outside the JSON data model, an in-place
// reference cycle was entered, or a regular expression that is needed does not
// compile with Go's regexp package.
func (m *Model) Validate(inst any) (valid bool, err error) {
	if m.broken || m.root == nil {
		return false, domainErrf("Model was not built successfully")
	}
	return m.run(m.root.rootRes.root, inst)
}

// ValidateAt evaluates inst against the schema at JSON pointer ptr of the
// root document ("" is the root schema). The dynamic scope starts with the
// root document's root resource, followed by the resource containing the node
// if that is a different one.
func (m *Model) ValidateAt(ptr string, inst any) (bool, error) {
	if m.broken || m.root == nil {
		return false, domainErrf("Model was not built successfully")
	}
	n := m.root.nodes[ptr]
	if n == nil {
		return false, domainErrf("no schema at %q in the root document", ptr)
	}
	return m.run(n, inst)
}

func (m *Model) run(n *node, inst any) (valid bool, err error) {
	if err := checkValue(inst); err != nil {
		return false, domainErrf("instance: %v", err)
	}
	e := &evaluator{
		m:      m,
		trace:  m.Trace,
		rule:   m.DynRule,
		annot:  m.annotated,
		scope:  []*resource{m.root.rootRes},
		active: map[visit]struct{}{},
	}
	defer func() {
		if r := recover(); r != nil {
			de, ok := r.(*DomainError)
			if !ok {
				panic(r)
			}
			valid, err = false, de
		}
	}()
	return e.eval(n, inst, "", nil), nil
}

type visit struct {
	n   *node
	loc string
}

type evaluator struct {
	m      *Model
	trace  func(Event)
	rule   DynRule
	annot  bool // annotations are needed by some schema
	scope  []*resource
	active map[visit]struct{}
	steps  int
}

// annotations records which children of ONE instance location were
// successfully evaluated by a schema and the in-place subschemas that passed.
type annotations struct {
	allProps bool
	props    map[string]struct{}
	allItems bool
	prefix   int // items with index < prefix are evaluated
	items    map[int]struct{}
}

// All recording methods accept a nil receiver: annotations are not collected
// at all when no schema of the model can consume them.

func (a *annotations) setAllProps() {
	if a != nil {
		a.allProps = true
	}
}

func (a *annotations) setAllItems() {
	if a != nil {
		a.allItems = true
	}
}

func (a *annotations) addProp(name string) {
	if a == nil || a.allProps {
		return
	}
	if a.props == nil {
		a.props = map[string]struct{}{}
	}
	a.props[name] = struct{}{}
}

func (a *annotations) addItem(i int) {
	if a == nil || a.allItems || i < a.prefix {
		return
	}
	if a.items == nil {
		a.items = map[int]struct{}{}
	}
	a.items[i] = struct{}{}
}

func (a *annotations) addPrefix(n int) {
	if a != nil && n > a.prefix {
		a.prefix = n
	}
}

func (a *annotations) hasProp(name string) bool {
	if a.allProps {
		return true
	}
	_, ok := a.props[name]
	return ok
}

func (a *annotations) hasItem(i int) bool {
	if a.allItems || i < a.prefix {
		return true
	}
	_, ok := a.items[i]
	return ok
}

func (a *annotations) merge(b *annotations) {
	if b.allProps {
		a.allProps = true
	} else {
		for k := range b.props {
			a.addProp(k)
		}
	}
	if b.allItems {
		a.allItems = true
	} else {
		a.addPrefix(b.prefix)
		for i := range b.items {
			a.addItem(i)
		}
	}
}

func (e *evaluator) emit(n *node, kw, loc string, ok bool) {
	if e.trace != nil {
		e.trace(Event{Keyword: kw, SchemaLoc: n.loc, InstLoc: loc, OK: ok})
	}
}

func fail(format string, a ...any) { panic(&DomainError{Msg: fmt.Sprintf(format, a...)}) }

// eval evaluates inst (at instance location loc) against schema n. If the
// schema passes and out is not nil, the schema's annotations are merged into
// out; a failing schema contributes nothing. Every keyword is evaluated, there
// is no short-circuiting, so that traces are complete and cycles are detected
// independently of keyword order.
func (e *evaluator) eval(n *node, inst any, loc string, out *annotations) bool {
	if n.boolean {
		return n.value
	}
	if e.steps++; e.m.MaxSteps > 0 && e.steps > e.m.MaxSteps {
		fail("evaluation budget of %d schema applications exceeded", e.m.MaxSteps)
	}
	key := visit{n, loc}
	if _, again := e.active[key]; again {
		fail("in-place reference cycle: %s re-entered at instance location %q", n.loc, loc)
	}
	e.active[key] = struct{}{}
	pushed := e.scope[len(e.scope)-1] != n.res
	if pushed {
		e.scope = append(e.scope, n.res)
	}

	var store annotations
	var ann *annotations
	if e.annot {
		ann = &store
	}
	ok := e.keywords(n, inst, loc, ann)

	if pushed {
		e.scope = e.scope[:len(e.scope)-1]
	}
	delete(e.active, key)
	if ok && out != nil && ann != nil {
		out.merge(ann)
	}
	return ok
}

// inPlace evaluates an in-place applicator subschema and reports the result as kw.
func (e *evaluator) inPlace(n *node, kw string, sub *node, inst any, loc string, ann *annotations) bool {
	ok := e.eval(sub, inst, loc, ann)
	e.emit(n, kw, loc, ok)
	return ok
}

func (e *evaluator) keywords(n *node, inst any, loc string, ann *annotations) bool {
	k := n.kw
	ok := true
	note := func(kw string, pass bool) {
		e.emit(n, kw, loc, pass)
		if !pass {
			ok = false
		}
	}

	// 1. references
	if k.hasRef {
		pass := e.inPlace(n, "$ref", k.ref, inst, loc, ann)
		if n.refOnly {
			return pass
		}
		ok = ok && pass
	}
	if k.hasDynRef {
		ok = e.inPlace(n, "$dynamicRef", e.dynamicTarget(k), inst, loc, ann) && ok
	}

	// 2. assertions on any instance, numbers, strings
	var num *big.Rat
	if jn, isNum := inst.(json.Number); isNum {
		var err error
		if num, err = parseNumber(jn); err != nil {
			fail("instance number at %q: %v", loc, err)
		}
	}
	if k.hasType {
		note("type", matchesType(k.types, inst, num))
	}
	if k.hasEnum {
		pass := false
		for _, v := range k.enum {
			if Equal(v, inst) {
				pass = true
				break
			}
		}
		note("enum", pass)
	}
	if k.hasConst {
		note("const", Equal(k.constant, inst))
	}
	if num != nil {
		if k.multipleOf != nil {
			note("multipleOf", new(big.Rat).Quo(num, k.multipleOf).IsInt())
		}
		if k.minimum != nil {
			note("minimum", num.Cmp(k.minimum) >= 0)
		}
		if k.maximum != nil {
			note("maximum", num.Cmp(k.maximum) <= 0)
		}
		if k.exclusiveMinimum != nil {
			note("exclusiveMinimum", num.Cmp(k.exclusiveMinimum) > 0)
		}
		if k.exclusiveMaximum != nil {
			note("exclusiveMaximum", num.Cmp(k.exclusiveMaximum) < 0)
		}
	}
	if s, isStr := inst.(string); isStr {
		if k.minLength != nil || k.maxLength != nil {
			length := int64(utf8.RuneCountInString(s))
			if k.minLength != nil {
				note("minLength", length >= *k.minLength)
			}
			if k.maxLength != nil {
				note("maxLength", length <= *k.maxLength)
			}
		}
		if k.pattern != nil {
			note("pattern", e.match(n, k.pattern, s))
		}
	}

	// 3. in-place applicators
	if k.hasAllOf {
		pass := true
		for _, sub := range k.allOf {
			if !e.eval(sub, inst, loc, ann) {
				pass = false
			}
		}
		note("allOf", pass)
	}
	if k.hasAnyOf {
		pass := false
		for _, sub := range k.anyOf {
			if e.eval(sub, inst, loc, ann) {
				pass = true
			}
		}
		note("anyOf", pass)
	}
	if k.hasOneOf {
		count := 0
		var winner annotations
		for _, sub := range k.oneOf {
			var branch annotations
			if e.eval(sub, inst, loc, &branch) {
				count++
				winner = branch
			}
		}
		if count == 1 && e.annot {
			ann.merge(&winner)
		}
		note("oneOf", count == 1)
	}
	if k.not != nil {
		note("not", !e.eval(k.not, inst, loc, nil))
	}
	if k.ifS != nil {
		cond := e.eval(k.ifS, inst, loc, ann)
		e.emit(n, "if", loc, cond)
		if cond && k.thenS != nil {
			ok = e.inPlace(n, "then", k.thenS, inst, loc, ann) && ok
		}
		if !cond && k.elseS != nil {
			ok = e.inPlace(n, "else", k.elseS, inst, loc, ann) && ok
		}
	}

	// 4. arrays
	if arr, isArr := inst.([]any); isArr {
		ok = e.arrayKeywords(n, arr, loc, ann) && ok
	}

	// 5. objects
	if obj, isObj := inst.(map[string]any); isObj {
		ok = e.objectKeywords(n, obj, loc, ann) && ok
	}
	return ok
}

func (e *evaluator) dynamicTarget(k *keywords) *node {
	if k.dynName == "" || e.rule == DynLexical {
		return k.dynRef
	}
	if e.rule == DynInnermost {
		for i := len(e.scope) - 1; i >= 0; i-- {
			if a, ok := e.scope[i].anchors[k.dynName]; ok && a.dynamic {
				return a.n
			}
		}
		return k.dynRef
	}
	for _, r := range e.scope {
		if a, ok := r.anchors[k.dynName]; ok && a.dynamic {
			return a.n
		}
	}
	return k.dynRef
}

func (e *evaluator) match(n *node, p *pattern, s string) bool {
	if p.err != nil {
		fail("%s: regular expression %q does not compile: %v", n.loc, p.src, p.err)
	}
	return p.re.MatchString(s)
}

func matchesType(types []string, inst any, num *big.Rat) bool {
	for _, t := range types {
		var hit bool
		switch t {
		case "null":
			hit = inst == nil
		case "boolean":
			_, hit = inst.(bool)
		case "string":
			_, hit = inst.(string)
		case "array":
			_, hit = inst.([]any)
		case "object":
			_, hit = inst.(map[string]any)
		case "number":
			hit = num != nil
		case "integer":
			hit = num != nil && num.IsInt()
		}
		if hit {
			return true
		}
	}
	return false
}

func childLoc(loc string, tok string) string { return loc + "/" + escapeToken(tok) }

func (e *evaluator) arrayKeywords(n *node, arr []any, loc string, ann *annotations) bool {
	k := n.kw
	ok := true
	note := func(kw string, pass bool) {
		e.emit(n, kw, loc, pass)
		if !pass {
			ok = false
		}
	}

	start := 0
	if k.hasPrefix {
		pass := true
		for i := 0; i < len(arr) && i < len(k.prefixItems); i++ {
			if !e.eval(k.prefixItems[i], arr[i], childLoc(loc, itoa(i)), nil) {
				pass = false
			}
		}
		start = min(len(arr), len(k.prefixItems))
		ann.addPrefix(start)
		note(k.prefixKeyword, pass)
	}
	if k.items != nil {
		pass := true
		for i := start; i < len(arr); i++ {
			if !e.eval(k.items, arr[i], childLoc(loc, itoa(i)), nil) {
				pass = false
			}
		}
		ann.setAllItems()
		note(k.itemsKeyword, pass)
	}
	if k.contains != nil {
		count := int64(0)
		for i, v := range arr {
			if e.eval(k.contains, v, childLoc(loc, itoa(i)), nil) {
				count++
				ann.addItem(i)
			}
		}
		note("contains", count > 0 || (k.minContains != nil && *k.minContains == 0))
		if k.minContains != nil {
			note("minContains", count >= *k.minContains)
		}
		if k.maxContains != nil {
			note("maxContains", count <= *k.maxContains)
		}
	}
	if k.minItems != nil {
		note("minItems", int64(len(arr)) >= *k.minItems)
	}
	if k.maxItems != nil {
		note("maxItems", int64(len(arr)) <= *k.maxItems)
	}
	if k.uniqueItems {
		pass := true
	outer:
		for i := range arr {
			for j := i + 1; j < len(arr); j++ {
				if Equal(arr[i], arr[j]) {
					pass = false
					break outer
				}
			}
		}
		note("uniqueItems", pass)
	}
	if k.unevaluatedItems != nil {
		pass := true
		for i, v := range arr {
			if ann.hasItem(i) {
				continue
			}
			if !e.eval(k.unevaluatedItems, v, childLoc(loc, itoa(i)), nil) {
				pass = false
			}
		}
		ann.setAllItems()
		note("unevaluatedItems", pass)
	}
	return ok
}

func (e *evaluator) objectKeywords(n *node, obj map[string]any, loc string, ann *annotations) bool {
	k := n.kw
	ok := true
	note := func(kw string, pass bool) {
		e.emit(n, kw, loc, pass)
		if !pass {
			ok = false
		}
	}
	var names []string // instance member names, sorted, computed on demand
	sorted := func() []string {
		if names == nil && len(obj) > 0 {
			names = make([]string, 0, len(obj))
			for name := range obj {
				names = append(names, name)
			}
			sort.Strings(names)
		}
		return names
	}

	if k.hasProperties {
		pass := true
		for _, p := range k.properties {
			v, present := obj[p.name]
			if !present {
				continue
			}
			if !e.eval(p.n, v, childLoc(loc, p.name), nil) {
				pass = false
			}
			ann.addProp(p.name)
		}
		note("properties", pass)
	}
	if k.hasPatternProperties {
		pass := true
		for _, p := range k.patternProperties {
			for _, name := range sorted() {
				if !e.match(n, &p.pattern, name) {
					continue
				}
				if !e.eval(p.n, obj[name], childLoc(loc, name), nil) {
					pass = false
				}
				ann.addProp(name)
			}
		}
		note("patternProperties", pass)
	}
	if k.additionalProperties != nil {
		pass := true
	names:
		for _, name := range sorted() {
			if _, declared := k.propIndex[name]; declared {
				continue
			}
			for _, p := range k.patternProperties {
				if e.match(n, &p.pattern, name) {
					continue names
				}
			}
			if !e.eval(k.additionalProperties, obj[name], childLoc(loc, name), nil) {
				pass = false
			}
			ann.addProp(name)
		}
		note("additionalProperties", pass)
	}
	if k.propertyNames != nil {
		pass := true
		for _, name := range sorted() {
			if !e.eval(k.propertyNames, name, childLoc(loc, name), nil) {
				pass = false
			}
		}
		note("propertyNames", pass)
	}
	if k.minProps != nil {
		note("minProperties", int64(len(obj)) >= *k.minProps)
	}
	if k.maxProps != nil {
		note("maxProperties", int64(len(obj)) <= *k.maxProps)
	}
	if k.hasRequired {
		note("required", hasAll(obj, k.required))
	}

	// dependentRequired / dependentSchemas, or both halves of draft-07 dependencies
	reqPass := true
	for _, d := range k.dependentRequired {
		if _, present := obj[d.name]; present && !hasAll(obj, d.names) {
			reqPass = false
		}
	}
	schPass := true
	for _, d := range k.dependentSchemas {
		if _, present := obj[d.name]; present && !e.eval(d.n, obj, loc, ann) {
			schPass = false
		}
	}
	if k.hasDependencies {
		note("dependencies", reqPass && schPass)
	}
	if k.hasDependentRequired {
		note("dependentRequired", reqPass)
	}
	if k.hasDependentSchemas {
		note("dependentSchemas", schPass)
	}

	if k.unevaluatedProperties != nil {
		pass := true
		for _, name := range sorted() {
			if ann.hasProp(name) {
				continue
			}
			if !e.eval(k.unevaluatedProperties, obj[name], childLoc(loc, name), nil) {
				pass = false
			}
		}
		ann.setAllProps()
		note("unevaluatedProperties", pass)
	}
	return ok
}

func hasAll(obj map[string]any, names []string) bool {
	for _, name := range names {
		if _, present := obj[name]; !present {
			return false
		}
	}
	return true
}

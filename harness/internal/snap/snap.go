// Package snap produces a deep, deterministic dump of any Go value graph (Schema trees, instances):
// every exported and unexported field reachable by reflection, slice lengths, map contents sorted,
// and the POINTER GRAPH (each pointer / map / slice backing store replaced by its first-visit index),
// so that both value changes and aliasing changes between two snapshots are visible.
package snap

import (
	"fmt"
	"reflect"
	"sort"
	"strings"
)

type dumper struct {
	sb   strings.Builder
	ids  map[uintptr]int
	next int
}

// Of returns the snapshot string.
func Of(v any) string {
	d := &dumper{ids: map[uintptr]int{}}
	d.dump(reflect.ValueOf(v), 0)
	return d.sb.String()
}

// Pointers returns the set of addresses of all objects of type T reachable from v.
func Pointers[T any](v any) map[*T]bool {
	out := map[*T]bool{}
	seen := map[uintptr]bool{}
	var walk func(rv reflect.Value, depth int)
	walk = func(rv reflect.Value, depth int) {
		if !rv.IsValid() || depth > 200 {
			return
		}
		switch rv.Kind() {
		case reflect.Pointer:
			if rv.IsNil() {
				return
			}
			if seen[rv.Pointer()] {
				return
			}
			seen[rv.Pointer()] = true
			if p, ok := rv.Interface().(*T); ok {
				out[p] = true
			}
			walk(rv.Elem(), depth+1)
		case reflect.Interface:
			if !rv.IsNil() {
				walk(rv.Elem(), depth+1)
			}
		case reflect.Struct:
			for i := 0; i < rv.NumField(); i++ {
				if rv.Type().Field(i).IsExported() {
					walk(rv.Field(i), depth+1)
				}
			}
		case reflect.Slice, reflect.Array:
			for i := 0; i < rv.Len(); i++ {
				walk(rv.Index(i), depth+1)
			}
		case reflect.Map:
			it := rv.MapRange()
			for it.Next() {
				walk(it.Value(), depth+1)
			}
		}
	}
	walk(reflect.ValueOf(v), 0)
	return out
}

func (d *dumper) id(p uintptr) (int, bool) {
	if n, ok := d.ids[p]; ok {
		return n, true
	}
	d.next++
	d.ids[p] = d.next
	return d.next, false
}

func (d *dumper) dump(v reflect.Value, depth int) {
	if !v.IsValid() {
		d.sb.WriteString("<invalid>")
		return
	}
	if depth > 200 {
		d.sb.WriteString("<deep>")
		return
	}
	switch v.Kind() {
	case reflect.Pointer:
		if v.IsNil() {
			d.sb.WriteString("nil")
			return
		}
		n, seen := d.id(v.Pointer())
		fmt.Fprintf(&d.sb, "&%d", n)
		if seen {
			return
		}
		d.sb.WriteByte('(')
		d.dump(v.Elem(), depth+1)
		d.sb.WriteByte(')')
	case reflect.Interface:
		if v.IsNil() {
			d.sb.WriteString("nil")
			return
		}
		fmt.Fprintf(&d.sb, "<%s>", v.Elem().Type())
		d.dump(v.Elem(), depth+1)
	case reflect.Struct:
		d.sb.WriteString(v.Type().Name() + "{")
		for i := 0; i < v.NumField(); i++ {
			f := v.Field(i)
			if f.IsZero() {
				continue
			}
			d.sb.WriteString(v.Type().Field(i).Name + ":")
			d.dump(f, depth+1)
			d.sb.WriteByte(';')
		}
		d.sb.WriteByte('}')
	case reflect.Slice:
		if v.IsNil() {
			d.sb.WriteString("nilslice")
			return
		}
		if v.Len() > 0 {
			n, _ := d.id(v.Pointer())
			fmt.Fprintf(&d.sb, "@%d", n)
		}
		fallthrough
	case reflect.Array:
		fmt.Fprintf(&d.sb, "[%d:", v.Len())
		for i := 0; i < v.Len(); i++ {
			d.dump(v.Index(i), depth+1)
			d.sb.WriteByte(',')
		}
		d.sb.WriteByte(']')
	case reflect.Map:
		if v.IsNil() {
			d.sb.WriteString("nilmap")
			return
		}
		n, seen := d.id(v.Pointer())
		fmt.Fprintf(&d.sb, "@%d", n)
		if seen {
			return
		}
		keys := v.MapKeys()
		sort.Slice(keys, func(i, j int) bool { return fmt.Sprint(keys[i].Interface()) < fmt.Sprint(keys[j].Interface()) })
		d.sb.WriteString("map{")
		for _, k := range keys {
			fmt.Fprintf(&d.sb, "%q:", fmt.Sprint(k.Interface()))
			d.dump(v.MapIndex(k), depth+1)
			d.sb.WriteByte(',')
		}
		d.sb.WriteByte('}')
	case reflect.String:
		fmt.Fprintf(&d.sb, "%q", v.String())
	case reflect.Func, reflect.Chan, reflect.UnsafePointer:
		fmt.Fprintf(&d.sb, "<%s>", v.Kind())
	default:
		if v.CanInterface() {
			fmt.Fprintf(&d.sb, "%v", v.Interface())
		} else {
			fmt.Fprintf(&d.sb, "%v", v)
		}
	}
}

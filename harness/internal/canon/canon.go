// Package canon computes a canonical string for the JSON value denoted by any Go
// representation, using its own reflection walk (it shares no code with the library).
// Two Go values denote the same JSON value iff their canonical strings are equal.
package canon

import (
	"encoding/json"
	"fmt"
	"math/big"
	"reflect"
	"sort"
	"strconv"
	"strings"
)

var numberType = reflect.TypeOf(json.Number(""))

// Of returns the canonical form, or an error for values that denote no JSON value
// (func, chan, complex, struct, map with non-string key, unparsable json.Number, NaN/Inf).
func Of(v any) (string, error) {
	var sb strings.Builder
	if err := write(&sb, reflect.ValueOf(v)); err != nil {
		return "", err
	}
	return sb.String(), nil
}

// Must is Of for values known to be JSON-shaped.
func Must(v any) string {
	s, err := Of(v)
	if err != nil {
		panic("canon: " + err.Error())
	}
	return s
}

func ratString(r *big.Rat) string {
	if r.IsInt() {
		return "n" + r.Num().String()
	}
	return "n" + r.Num().String() + "/" + r.Denom().String()
}

func write(sb *strings.Builder, v reflect.Value) error {
	for v.IsValid() && (v.Kind() == reflect.Pointer || v.Kind() == reflect.Interface) {
		v = v.Elem()
	}
	if !v.IsValid() {
		sb.WriteString("null")
		return nil
	}
	if v.Type() == numberType {
		r, ok := new(big.Rat).SetString(v.String())
		if !ok {
			return fmt.Errorf("unparsable json.Number %q", v.String())
		}
		sb.WriteString(ratString(r))
		return nil
	}
	switch v.Kind() {
	case reflect.Bool:
		if v.Bool() {
			sb.WriteString("true")
		} else {
			sb.WriteString("false")
		}
	case reflect.Int, reflect.Int8, reflect.Int16, reflect.Int32, reflect.Int64:
		sb.WriteString(ratString(new(big.Rat).SetInt64(v.Int())))
	case reflect.Uint, reflect.Uint8, reflect.Uint16, reflect.Uint32, reflect.Uint64, reflect.Uintptr:
		sb.WriteString(ratString(new(big.Rat).SetUint64(v.Uint())))
	case reflect.Float32, reflect.Float64:
		r := new(big.Rat)
		if r.SetFloat64(v.Float()) == nil {
			return fmt.Errorf("non-finite float")
		}
		sb.WriteString(ratString(r))
	case reflect.String:
		sb.WriteString("s" + strconv.Quote(v.String()))
	case reflect.Slice, reflect.Array:
		sb.WriteByte('[')
		for i := 0; i < v.Len(); i++ {
			if i > 0 {
				sb.WriteByte(',')
			}
			if err := write(sb, v.Index(i)); err != nil {
				return err
			}
		}
		sb.WriteByte(']')
	case reflect.Map:
		if v.Type().Key().Kind() != reflect.String {
			return fmt.Errorf("map key kind %s", v.Type().Key().Kind())
		}
		type kv struct {
			k string
			v reflect.Value
		}
		var kvs []kv
		it := v.MapRange()
		for it.Next() {
			kvs = append(kvs, kv{it.Key().String(), it.Value()})
		}
		sort.Slice(kvs, func(i, j int) bool { return kvs[i].k < kvs[j].k })
		sb.WriteByte('{')
		for i, e := range kvs {
			if i > 0 {
				sb.WriteByte(',')
			}
			sb.WriteString(strconv.Quote(e.k))
			sb.WriteByte(':')
			if err := write(sb, e.v); err != nil {
				return err
			}
		}
		sb.WriteByte('}')
	default:
		return fmt.Errorf("kind %s denotes no JSON value", v.Kind())
	}
	return nil
}

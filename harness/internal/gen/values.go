// Package gen holds the seed-driven generators: JSON values, Go representations,
// schema documents, reference universes, Schema structs and Go types.
package gen

import (
	"bytes"
	"encoding/json"
	"math/rand/v2"
)

// Model form of a JSON value: nil, bool, json.Number, string, []any, map[string]any.

var (
	Names   = []string{"a", "b", "ab", "\u00e9", "a b", "", "a/b", "~", "0", "a,b", "\x1f", "a\x00b"} // (several are concatenations of others with a separator; C0 controls incl. the last one, U+001F)
	Strings = []string{"", "a", "b", "ab", "abc", "\u00e9", "e\u0301", "\u65e5\u672c", "\U0001F600", "a b", "0", "1", "true", "null", "a/b", "~"}
	// Numbers exactly representable in float64, with short decimal spellings (some in two spellings).
	Numbers = []string{"0", "1", "-1", "2", "3", "4", "5", "10", "0.5", "-0.5", "1.5", "2.5", "0.25", "0.125", "1.0", "1e0", "10e-1", "2.0",
		"100", "127", "128", "-128", "-129", "255", "256", "65535", "65536", "2147483647", "2147483648", "-2147483648", "4294967295", "4294967296",
		"9007199254740992", "-9007199254740992", "1e2", "3.5", "-2", "7", "0.75", "1.25", "-0.0", "1E1"}
	// Integers beyond float64 exactness (only where the property's domain allows typed integers / json.Number).
	// (also decimals no float64 holds exactly, in plain and in exponent spelling: a json.Number must be compared as the exact
	// value it spells, 1e-1 == 0.1, 1e23 == 100000000000000000000000, never through the nearest float64)
	BigInts = []string{"9007199254740993", "-9007199254740993", "9223372036854775807", "-9223372036854775808", "18446744073709551615", "9223372036854775808",
		"0.1", "1e-1", "1E-1", "0.3", "3e-1", "1e23", "100000000000000000000000", "0.7", "-9223372036854775809", "9223372036854775808.0", "92233720368547758080e-1",
		// decimals within half an ulp of an integer (a float64 reads them as that integer), next to the integer itself
		"1.00000000000000001", "1", "0.99999999999999999", "1.0000000000000001", "4503599627370496.5", "4503599627370496", "-1.00000000000000001", "-1"}
)

func Pick[T any](r *rand.Rand, xs []T) T { return xs[r.IntN(len(xs))] }

type ValueOpts struct {
	MaxDepth int
	BigInts  bool
	MaxLen   int
}

// Value generates a JSON value in model form.
func Value(r *rand.Rand, o ValueOpts, depth int) any {
	if o.MaxLen == 0 {
		o.MaxLen = 3
	}
	k := r.IntN(10)
	if depth >= o.MaxDepth && k >= 7 {
		k = r.IntN(7)
	}
	switch k {
	case 0:
		return nil
	case 1:
		return r.IntN(2) == 0
	case 2, 3, 4:
		if o.BigInts && r.IntN(6) == 0 {
			return json.Number(Pick(r, BigInts))
		}
		return json.Number(Pick(r, Numbers))
	case 5, 6:
		return Pick(r, Strings)
	case 7, 8:
		n := r.IntN(o.MaxLen + 1)
		a := make([]any, n)
		for i := range a {
			a[i] = Value(r, o, depth+1)
		}
		return a
	default:
		n := r.IntN(o.MaxLen + 1)
		m := map[string]any{}
		for i := 0; i < n; i++ {
			m[Pick(r, Names)] = Value(r, o, depth+1)
		}
		return m
	}
}

// Text marshals a model-form value (json.Number spellings are kept; no HTML escaping).
func Text(v any) string {
	var buf bytes.Buffer
	enc := json.NewEncoder(&buf)
	enc.SetEscapeHTML(false)
	if err := enc.Encode(v); err != nil {
		panic(err)
	}
	return string(bytes.TrimRight(buf.Bytes(), "\n"))
}

// Parse decodes text into model form.
func Parse(text string) any {
	dec := json.NewDecoder(bytes.NewReader([]byte(text)))
	dec.UseNumber()
	var v any
	if err := dec.Decode(&v); err != nil {
		panic("gen.Parse: " + err.Error() + ": " + text)
	}
	return v
}

// Canonical decodes text the way encoding/json does by default (float64 numbers).
func Canonical(text string) any {
	var v any
	if err := json.Unmarshal([]byte(text), &v); err != nil {
		panic("gen.Canonical: " + err.Error() + ": " + text)
	}
	return v
}

// Clone deep-copies a model-form value.
func Clone(v any) any {
	switch x := v.(type) {
	case []any:
		a := make([]any, len(x))
		for i := range x {
			a[i] = Clone(x[i])
		}
		return a
	case map[string]any:
		m := make(map[string]any, len(x))
		for k, e := range x {
			m[k] = Clone(e)
		}
		return m
	}
	return v
}

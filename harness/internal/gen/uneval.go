package gen

import (
	"encoding/json"
	"fmt"
	"math/rand/v2"
)

// UNames / UItems are the tiny pools of the dedicated unevaluated* workload (C07):
// instances are enumerated exhaustively over them.
var (
	UNames = []string{"a", "b", "c", "d"}
	UItems = []any{json.Number("1"), "x"}
)

type ugen struct {
	r     *rand.Rand
	ndefs int
	array bool // array flavour (unevaluatedItems) or object flavour (unevaluatedProperties)
	dyn   bool
	cur   int // definition being generated (-1: root); in-place refs only go to higher-numbered ones
}

// UnevalSchema generates a 2020-12 schema whose verdicts hinge on unevaluatedProperties / unevaluatedItems:
// local evaluators and 1-3 levels of in-place applicators whose branches evaluate different subsets of the
// tiny pools, failing branches that contain evaluators, not, if without then, $ref/$dynamicRef to evaluating
// definitions, dependentSchemas, cousins, contains, nested unevaluated*.
func UnevalSchema(r *rand.Rand) (doc map[string]any, array bool) {
	g := &ugen{r: r, array: r.IntN(2) == 0, ndefs: r.IntN(4), cur: -1}
	root := g.node(0, true)
	if g.ndefs > 0 {
		defs := map[string]any{}
		for i := 0; i < g.ndefs; i++ {
			g.cur = i
			d := g.node(2, false)
			if r.IntN(3) == 0 {
				d["$dynamicAnchor"] = fmt.Sprintf("D%d", i)
				g.dyn = true
			}
			defs[fmt.Sprintf("d%d", i)] = d
		}
		root["$defs"] = defs
	}
	if !g.array && r.IntN(6) == 0 {
		// a pattern that is a literal anchored at both ends, next to names that merely CONTAIN the literal (k1 / k10..k19 of
		// the size-stressed instances; a / ab)
		pp, _ := root["patternProperties"].(map[string]any)
		if pp == nil {
			pp = map[string]any{}
		}
		pp[Pick(r, []string{"^k1$", "^k$", "^a$", "^k2$"})] = g.leaf()
		root["patternProperties"] = pp
	}
	if r.IntN(8) == 0 {
		ForeignKeywords(r, root, D2020, UNames) // draft-07 keywords are unknown keywords here: no assertions, no annotations
	}
	return root, g.array
}

func (g *ugen) leaf() any {
	switch g.r.IntN(8) {
	case 0:
		return false
	case 1:
		return map[string]any{"type": "integer"}
	case 2:
		return map[string]any{"const": json.Number("1")}
	case 3:
		return map[string]any{"type": "string"}
	case 4:
		return map[string]any{}
	default:
		return true
	}
}

func (g *ugen) subset(lo int) []string {
	var out []string
	for _, n := range UNames {
		if g.r.IntN(2) == 0 {
			out = append(out, n)
		}
	}
	for len(out) < lo {
		out = append(out, Pick(g.r, UNames))
	}
	return out
}

// node builds a schema object. withUneval: put an unevaluated* keyword here.
func (g *ugen) node(depth int, withUneval bool) map[string]any {
	r := g.r
	s := map[string]any{}
	// local evaluators
	if g.array {
		if r.IntN(10) < 5 {
			n := r.IntN(4)
			p := make([]any, n)
			for i := range p {
				p[i] = g.leaf()
			}
			s["prefixItems"] = p
		}
		if r.IntN(10) < 2 {
			s["contains"] = g.leaf()
			if r.IntN(3) == 0 {
				s["minContains"] = json.Number(fmt.Sprint(r.IntN(3)))
			}
		}
		if r.IntN(12) == 0 {
			s["items"] = g.leaf()
		}
		if r.IntN(8) == 0 {
			s[Pick(r, []string{"minItems", "maxItems"})] = json.Number(fmt.Sprint(r.IntN(4)))
		}
	} else {
		if r.IntN(10) < 6 {
			p := map[string]any{}
			for _, n := range g.subset(0) {
				p[n] = g.leaf()
			}
			s["properties"] = p
		}
		if r.IntN(10) < 2 {
			s["patternProperties"] = map[string]any{Pick(r, []string{"^a$", "^[ab]$", "^[cd]$", "d"}): g.leaf()}
		}
		if r.IntN(14) == 0 {
			s["additionalProperties"] = g.leaf()
		}
		if r.IntN(8) == 0 {
			s["required"] = []any{Pick(r, UNames)}
		}
	}
	// in-place applicators
	if depth < 3 {
		for i := r.IntN(3); i > 0; i-- {
			switch k := r.IntN(9); k {
			case 0, 1, 2:
				kw := []string{"allOf", "anyOf", "oneOf"}[k]
				n := 1 + r.IntN(3)
				br := make([]any, n)
				for j := range br {
					br[j] = g.branch(depth + 1)
				}
				s[kw] = br
			case 3:
				s["not"] = g.branch(depth + 1)
			case 4:
				s["if"] = g.branch(depth + 1)
				if r.IntN(3) > 0 {
					s["then"] = g.branch(depth + 1)
				}
				if r.IntN(3) > 0 {
					s["else"] = g.branch(depth + 1)
				}
			case 5:
				if !g.array {
					ds := map[string]any{}
					for _, n := range g.subset(1)[:1] {
						ds[n] = g.branch(depth + 1)
					}
					s["dependentSchemas"] = ds
				}
			case 6, 7:
				if lo := g.cur + 1; lo < g.ndefs {
					s["$ref"] = fmt.Sprintf("#/$defs/d%d", lo+r.IntN(g.ndefs-lo))
				}
			case 8:
				if lo := g.cur + 1; lo < g.ndefs {
					i := lo + r.IntN(g.ndefs-lo)
					s["$dynamicRef"] = Pick(r, []string{fmt.Sprintf("#/$defs/d%d", i), fmt.Sprintf("#D%d", i)})
				}
			}
		}
	}
	if withUneval || r.IntN(6) == 0 {
		kw := "unevaluatedProperties"
		if g.array {
			kw = "unevaluatedItems"
		}
		switch r.IntN(10) {
		case 0, 1:
			s[kw] = g.leaf()
		case 2:
			inner := map[string]any{"type": Pick(r, []string{"integer", "string", "object", "array"})}
			s[kw] = inner
		default:
			s[kw] = false
		}
	}
	return s
}

func (g *ugen) branch(depth int) any {
	if g.r.IntN(8) == 0 {
		return g.r.IntN(3) > 0
	}
	if lo := g.cur + 1; lo < g.ndefs && g.r.IntN(7) == 0 {
		// a branch that is NOTHING BUT two references (one may hold, the other fail): what the first target evaluated counts only
		// if the whole branch holds
		b := map[string]any{"$ref": fmt.Sprintf("#/$defs/d%d", lo+g.r.IntN(g.ndefs-lo)), "$dynamicRef": fmt.Sprintf("#/$defs/d%d", lo+g.r.IntN(g.ndefs-lo))}
		if g.r.IntN(3) == 0 {
			b["$comment"] = "both references must hold"
		}
		return b
	}
	return g.node(depth, false)
}

// UInstances enumerates the exhaustive instance pool: every object over UNames with each name absent or
// bound to one of UItems (81 objects), or every array of length 0..4 over UItems (31 arrays).
func UInstances(array bool) []any {
	var out []any
	if array {
		var rec func(prefix []any, n int)
		rec = func(prefix []any, n int) {
			out = append(out, append([]any{}, prefix...))
			if n == 4 {
				return
			}
			for _, it := range UItems {
				rec(append(prefix, it), n+1)
			}
		}
		rec(nil, 0)
		return out
	}
	total := 1
	for range UNames {
		total *= len(UItems) + 1
	}
	for code := 0; code < total; code++ {
		m := map[string]any{}
		c := code
		for _, n := range UNames {
			k := c % (len(UItems) + 1)
			c /= len(UItems) + 1
			if k > 0 {
				m[n] = UItems[k-1]
			}
		}
		out = append(out, m)
	}
	return out
}

// ULongInstances adds size-stressed members to the exhaustive pool: arrays and objects whose length sits on
// the sizes at which set representations change (machine words), built over the same tiny pools.
func ULongInstances(r *rand.Rand, array bool, n int) []any {
	var out []any
	for ; n > 0; n-- {
		size := Pick(r, LongSizes)
		if array {
			a := make([]any, size)
			bias := r.IntN(3) // mostly one kind with a few of the other, or an even mix
			for i := range a {
				switch {
				case bias == 2 || r.IntN(6) == 0 || i == 63 || i == 64 || i == size-1:
					a[i] = Pick(r, UItems)
				default:
					a[i] = UItems[bias]
				}
			}
			out = append(out, a)
			continue
		}
		m := map[string]any{}
		for _, name := range UNames {
			if k := r.IntN(len(UItems) + 1); k > 0 {
				m[name] = UItems[k-1]
			}
		}
		for i := 0; len(m) < size; i++ {
			m[fmt.Sprintf("k%d", i)] = Pick(r, UItems)
		}
		out = append(out, m)
	}
	return out
}

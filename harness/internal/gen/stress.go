package gen

import (
	"encoding/json"
	"fmt"
	"math/rand/v2"
)

// Size stress for schema documents. Representations inside an implementation change at sizes the ordinary
// generators never reach (fixed scratch arrays, bit sets over machine words, small-slice sort thresholds,
// block allocation): StressSchema stretches ONE dimension of a generated document past such sizes.
// The meaning of the stretched document is whatever the specification says it is: the reference model decides.

// ChainSizes: lengths of $ref chains; WideSizes: widths of keyword collections.
var (
	ChainSizes = []int{7, 8, 9, 15, 16, 17, 18, 19, 31, 32, 33, 34, 63, 64, 65, 66, 129}
	WideSizes  = []int{12, 13, 14, 16, 17, 18, 31, 32, 33, 63, 64, 65, 66, 127, 128, 129, 130, 257}
)

func stressLeaf(r *rand.Rand) any {
	switch r.IntN(7) {
	case 0:
		return true
	case 1:
		return map[string]any{"type": "integer"}
	case 2:
		return map[string]any{"type": "string"}
	case 3:
		return map[string]any{"minimum": json.Number("1")}
	case 4:
		return map[string]any{"const": json.Number("1")}
	case 5:
		return map[string]any{"type": []any{"string", "integer", "null"}}
	}
	return map[string]any{}
}

// StressSchema stretches one dimension of doc (a schema object in model form) and reports which one ("" if doc
// is not an object). defsKey is "$defs" or "definitions".
func StressSchema(r *rand.Rand, doc any, draft Draft) string {
	m, ok := doc.(map[string]any)
	if !ok {
		return ""
	}
	defsKey := "$defs"
	if draft == D7 {
		defsKey = "definitions"
	}
	defs, _ := m[defsKey].(map[string]any)
	if defs == nil {
		defs = map[string]any{}
	}
	attach := func(sub any) {
		// hang sub on the root where it applies to the instance itself or to one of its properties
		if _, hasRef := m["$ref"]; hasRef && draft == D7 {
			return // siblings of $ref are ignored in draft-07: nothing attached here would be looked at
		}
		switch r.IntN(3) {
		case 0:
			a, _ := m["allOf"].([]any)
			m["allOf"] = append(append([]any{}, a...), sub)
		case 1:
			props, _ := m["properties"].(map[string]any)
			if props == nil {
				props = map[string]any{}
			}
			props[Pick(r, Names[:4])] = sub
			m["properties"] = props
		default:
			if _, has := m["items"]; !has {
				m["items"] = sub
			} else {
				a, _ := m["anyOf"].([]any)
				m["anyOf"] = append(append([]any{}, a...), sub)
			}
		}
	}
	switch kind := r.IntN(9); kind {
	case 8: // a deep nest of in-place applicators around one leaf: the work must stay linear in the depth
		cur, n := DeepNest(r)
		attach(cur)
		return fmt.Sprintf("nest%d", n)
	case 0, 1: // a long chain of $ref hops ending in a real schema
		n := Pick(r, ChainSizes)
		for i := 0; i < n; i++ {
			link := map[string]any{"$ref": fmt.Sprintf("#/%s/ch%d", defsKey, i+1)}
			if r.IntN(4) == 0 {
				link["title"] = "t"
			}
			defs[fmt.Sprintf("ch%d", i)] = link
		}
		defs[fmt.Sprintf("ch%d", n)] = stressLeaf(r)
		m[defsKey] = defs
		attach(map[string]any{"$ref": fmt.Sprintf("#/%s/ch0", defsKey)})
		return fmt.Sprintf("refchain%d", n)
	case 2: // a wide in-place applicator
		n := Pick(r, WideSizes)
		kw := Pick(r, []string{"allOf", "anyOf", "oneOf"})
		a := make([]any, n)
		for i := range a {
			a[i] = stressLeaf(r)
			if kw == "oneOf" && i > 0 && r.IntN(3) > 0 {
				a[i] = false
			}
		}
		if old, ok := m[kw].([]any); ok {
			a = append(append([]any{}, old...), a...)
		}
		m[kw] = a
		return fmt.Sprintf("wide-%s%d", kw, n)
	case 3: // many properties, a long required list
		n := Pick(r, WideSizes)
		props, _ := m["properties"].(map[string]any)
		if props == nil {
			props = map[string]any{}
		}
		var req []any
		for i := 0; i < n; i++ {
			name := fmt.Sprintf("k%d", i)
			props[name] = stressLeaf(r)
			if r.IntN(3) == 0 {
				req = append(req, name)
			}
		}
		m["properties"] = props
		if r.IntN(2) == 0 && len(req) > 0 {
			if old, ok := m["required"].([]any); ok {
				req = append(append([]any{}, old...), req...)
			}
			m["required"] = dedupStrings(req)
		}
		return fmt.Sprintf("wide-properties%d", n)
	case 4: // a long enum
		n := Pick(r, WideSizes)
		e := make([]any, 0, n)
		for i := 0; i < n; i++ {
			switch r.IntN(4) {
			case 0:
				e = append(e, json.Number(fmt.Sprint(i)))
			case 1:
				e = append(e, fmt.Sprintf("s%d", i))
			case 2:
				e = append(e, []any{json.Number(fmt.Sprint(i))})
			default:
				e = append(e, map[string]any{"k": json.Number(fmt.Sprint(i))})
			}
		}
		attach(map[string]any{"enum": e})
		return fmt.Sprintf("wide-enum%d", n)
	case 5: // a long prefixItems / items array
		n := Pick(r, WideSizes)
		a := make([]any, n)
		for i := range a {
			a[i] = stressLeaf(r)
		}
		kw := "prefixItems"
		if draft == D7 {
			kw = "items"
		}
		m[kw] = a
		return fmt.Sprintf("wide-%s%d", kw, n)
	case 6: // many definitions, each with an anchor; one of the late ones is used
		n := Pick(r, WideSizes)
		for i := 0; i < n; i++ {
			d := map[string]any{"type": Pick(r, TypeNames)}
			if draft == D2020 {
				d["$anchor"] = fmt.Sprintf("W%d", i)
			} else {
				d["$id"] = fmt.Sprintf("#W%d", i)
			}
			defs[fmt.Sprintf("w%d", i)] = d
		}
		m[defsKey] = defs
		i := n - 1 - r.IntN(3)
		ref := fmt.Sprintf("#/%s/w%d", defsKey, i)
		if r.IntN(2) == 0 {
			ref = fmt.Sprintf("#W%d", i)
		}
		attach(map[string]any{"$ref": ref})
		return fmt.Sprintf("wide-defs%d", n)
	default: // many patternProperties / dependentRequired entries
		n := Pick(r, WideSizes)
		if r.IntN(2) == 0 {
			pp, _ := m["patternProperties"].(map[string]any)
			if pp == nil {
				pp = map[string]any{}
			}
			for i := 0; i < n; i++ {
				pp[fmt.Sprintf("^k%d$", i)] = stressLeaf(r)
			}
			m["patternProperties"] = pp
			return fmt.Sprintf("wide-patternProperties%d", n)
		}
		kw := "dependentRequired"
		if draft == D7 {
			kw = "dependencies"
		}
		dr, _ := m[kw].(map[string]any)
		if dr == nil {
			dr = map[string]any{}
		}
		for i := 0; i < n; i++ {
			dr[fmt.Sprintf("k%d", i)] = []any{fmt.Sprintf("k%d", (i+1)%n)}
		}
		m[kw] = dr
		return fmt.Sprintf("wide-%s%d", kw, n)
	}
}

// DeepNest returns a leaf wrapped in n (7..129) levels of single-branch allOf / anyOf / oneOf, and n.
func DeepNest(r *rand.Rand) (any, int) {
	n := Pick(r, ChainSizes)
	var cur any = stressLeaf(r)
	kws := []string{"allOf", "anyOf", "oneOf"}
	if r.IntN(2) == 0 {
		kws = []string{Pick(r, kws)} // one keyword all the way down
	}
	for i := 0; i < n; i++ {
		kw := Pick(r, kws)
		a := []any{cur}
		if kw != "allOf" && r.IntN(3) == 0 {
			a = append(a, false)
		}
		cur = map[string]any{kw: a}
	}
	return cur, n
}

func dedupStrings(in []any) []any {
	seen := map[any]bool{}
	var out []any
	for _, x := range in {
		if !seen[x] {
			seen[x] = true
			out = append(out, x)
		}
	}
	return out
}

// ForeignKeywords adds, to the root of doc and to one schema below it, a keyword that belongs to the OTHER supported draft
// and that this draft's vocabulary does not contain: unknown keywords are ignored (annotations included), so neither the
// verdicts nor what counts as evaluated may change. Only keywords with an unambiguous home are used: dependencies and
// additionalItems (draft-07) inside 2020-12 documents; dependentSchemas, dependentRequired and prefixItems (2020-12) inside
// draft-07 documents. Their values are chosen to bite if they were honoured.
func ForeignKeywords(r *rand.Rand, doc any, draft Draft, names []string) {
	root, ok := doc.(map[string]any)
	if !ok {
		return
	}
	if len(names) == 0 {
		names = Names[:4]
	}
	add := func(m map[string]any) {
		biting := func() any {
			switch r.IntN(4) {
			case 0:
				return false
			case 1:
				return map[string]any{"required": []any{"zz-never-present"}}
			case 2:
				// evaluates every property / item: would silence unevaluated* if its annotations leaked
				return map[string]any{"additionalProperties": true, "items": true}
			}
			return map[string]any{"properties": map[string]any{Pick(r, names): true}, "minProperties": json.Number("50")}
		}
		if draft == D2020 {
			if r.IntN(3) > 0 {
				dep := map[string]any{}
				for _, n := range names {
					if r.IntN(2) == 0 {
						dep[n] = biting()
					} else {
						dep[n] = []any{"zz-never-present"}
					}
				}
				m["dependencies"] = dep
			} else if _, has := m["additionalItems"]; !has {
				m["additionalItems"] = biting()
			}
			return
		}
		switch r.IntN(3) {
		case 0:
			dep := map[string]any{}
			for _, n := range names {
				dep[n] = biting()
			}
			m["dependentSchemas"] = dep
		case 1:
			dep := map[string]any{}
			for _, n := range names {
				dep[n] = []any{"zz-never-present"}
			}
			m["dependentRequired"] = dep
		default:
			m["prefixItems"] = []any{biting(), false}
		}
	}
	if _, hasRef := root["$ref"]; !(hasRef && draft == D7) {
		add(root)
	}
	// one schema below the root: a property value, an applicator branch or the items schema
	var subs []map[string]any
	if p, ok := root["properties"].(map[string]any); ok {
		for _, k := range sortedKeysAny(p) {
			if sm, ok := p[k].(map[string]any); ok {
				subs = append(subs, sm)
			}
		}
	}
	for _, kw := range []string{"allOf", "anyOf", "oneOf"} {
		if a, ok := root[kw].([]any); ok {
			for _, e := range a {
				if sm, ok := e.(map[string]any); ok {
					subs = append(subs, sm)
				}
			}
		}
	}
	if sm, ok := root["items"].(map[string]any); ok {
		subs = append(subs, sm)
	}
	if len(subs) > 0 {
		sm := Pick(r, subs)
		if _, hasRef := sm["$ref"]; !(hasRef && draft == D7) {
			add(sm)
		}
	}
}

package gen

import (
	"encoding/json"
	"fmt"
	"math"
	"math/big"
	"math/rand/v2"
	"reflect"
	"strings"
	"time"

	"verif/internal/typecorpus"
)

var basicTypes = []reflect.Type{
	reflect.TypeFor[bool](), reflect.TypeFor[int](), reflect.TypeFor[int8](), reflect.TypeFor[int16](), reflect.TypeFor[int32](), reflect.TypeFor[int64](),
	reflect.TypeFor[uint](), reflect.TypeFor[uint8](), reflect.TypeFor[uint16](), reflect.TypeFor[uint32](), reflect.TypeFor[uint64](), reflect.TypeFor[uintptr](),
	reflect.TypeFor[float32](), reflect.TypeFor[float64](), reflect.TypeFor[string](), reflect.TypeFor[any](),
	reflect.TypeFor[typecorpus.NamedInt](), reflect.TypeFor[typecorpus.NamedStr](), reflect.TypeFor[typecorpus.Key](),
	reflect.TypeFor[struct{}](), reflect.TypeFor[typecorpus.Empty](),
	// defined types of the standard library that are plain numbers in JSON (no marshaler methods)
	reflect.TypeFor[time.Duration](), reflect.TypeFor[time.Month](), reflect.TypeFor[time.Weekday](),
}

// TypeSig is a structural signature of a type (names erased) used for non-triviality keys.
func TypeSig(t reflect.Type, depth int) string {
	if depth > 4 {
		return "."
	}
	switch t.Kind() {
	case reflect.Pointer:
		return "*" + TypeSig(t.Elem(), depth+1)
	case reflect.Slice:
		return "[]" + TypeSig(t.Elem(), depth+1)
	case reflect.Array:
		return fmt.Sprintf("[%d]", min(t.Len(), 3)) + TypeSig(t.Elem(), depth+1)
	case reflect.Map:
		return "map" + TypeSig(t.Elem(), depth+1)
	case reflect.Struct:
		if t.PkgPath() == "time" || t.PkgPath() == "math/big" {
			return t.String()
		}
		var sb strings.Builder
		sb.WriteString("{")
		for i := 0; i < t.NumField() && i < 6; i++ {
			f := t.Field(i)
			if f.Anonymous {
				sb.WriteString("E")
			}
			if tag, ok := f.Tag.Lookup("json"); ok {
				if _, opts, _ := strings.Cut(tag, ","); opts != "" {
					sb.WriteString("," + opts)
				}
				if tag == "-" {
					sb.WriteString("-")
				}
			}
			sb.WriteString(TypeSig(f.Type, depth+2) + ";")
		}
		sb.WriteString("}")
		return sb.String()
	}
	return t.Kind().String()
}

// TypeOpts controls RandType.
type TypeOpts struct {
	MaxDepth int
	NoStd    bool // no standard-library marshaler types (C09)
}

// RandType builds a random type of the plain-data domain with reflect (no compilation):
// arbitrary nesting of the documented kinds, structs with random json tags and embedded corpus structs.
func RandType(r *rand.Rand, o TypeOpts, depth int) reflect.Type {
	if o.MaxDepth == 0 {
		o.MaxDepth = 4
	}
	k := r.IntN(12)
	if depth >= o.MaxDepth {
		k = r.IntN(4)
	}
	switch {
	case k < 4:
		if !o.NoStd && r.IntN(12) == 0 {
			// json.Number: kind string, but encoding/json writes and reads it as a number
			return Pick(r, []reflect.Type{reflect.TypeFor[time.Time](), reflect.TypeFor[*big.Rat](), reflect.TypeFor[*big.Float](), reflect.TypeFor[json.Number](), reflect.TypeFor[*json.Number]()})
		}
		return Pick(r, basicTypes)
	case k == 4:
		return reflect.PointerTo(RandType(r, o, depth+1))
	case k == 5:
		el := RandType(r, o, depth+1)
		if el.Kind() == reflect.Uint8 {
			el = reflect.TypeFor[uint16]() // []uint8 is []byte: base64 in encoding/json
		}
		return reflect.SliceOf(el)
	case k == 6:
		return reflect.ArrayOf(r.IntN(4), RandType(r, o, depth+1))
	case k == 7:
		kt := Pick(r, []reflect.Type{reflect.TypeFor[string](), reflect.TypeFor[string](), reflect.TypeFor[typecorpus.Key]()})
		return reflect.MapOf(kt, RandType(r, o, depth+1))
	case k == 8 && depth > 0:
		ts := typecorpus.PlainData
		return ts[r.IntN(len(ts))]
	default:
		return randStruct(r, o, depth)
	}
}

var tagForms = []string{"%s", "%s", "%s,omitempty", "%s,omitzero", "%s,omitempty,omitzero", "", "-", "-,", ",omitempty"}

func randStruct(r *rand.Rand, o TypeOpts, depth int) (result reflect.Type) {
	n := 1 + r.IntN(5)
	if r.IntN(12) == 0 {
		n = 0 // a struct without fields
	}
	var fields []reflect.StructField
	usedDash := false
	// an embedded corpus struct (by value or pointer) first, sometimes
	if r.IntN(4) == 0 {
		et := Pick(r, typecorpus.Embeddable)
		ft := et
		if r.IntN(2) == 0 {
			ft = reflect.PointerTo(et)
		}
		ef := reflect.StructField{Name: et.Name(), Type: ft, Anonymous: true}
		// a tag without a name keeps the field flattened; a name makes it an ordinary field; "-" drops it with all it promotes
		if tg := Pick(r, []string{"", "", "", ",omitempty", ",inline", "emb", "emb,omitempty", "-", "Emb Base"}); tg != "" {
			ef.Tag = reflect.StructTag(fmt.Sprintf(`json:"%s"`, tg))
		}
		fields = append(fields, ef)
	} else if r.IntN(8) == 0 {
		// an embedded NON-struct type: encoding/json treats it as an ordinary field named after the type
		et := Pick(r, []reflect.Type{reflect.TypeFor[typecorpus.NamedInt](), reflect.TypeFor[typecorpus.NamedStr](), reflect.TypeFor[typecorpus.NamedInts](), reflect.TypeFor[typecorpus.NamedMap](), reflect.TypeFor[typecorpus.Key]()})
		ft := et
		if r.IntN(3) == 0 {
			ft = reflect.PointerTo(et)
		}
		ef := reflect.StructField{Name: et.Name(), Type: ft, Anonymous: true}
		if tg := Pick(r, []string{"", "", "ns", ",omitempty", "-"}); tg != "" {
			ef.Tag = reflect.StructTag(fmt.Sprintf(`json:"%s"`, tg))
		}
		fields = append(fields, ef)
	}
	for i := 0; i < n; i++ {
		name := fmt.Sprintf("F%d", i)
		ft := RandType(r, o, depth+1)
		form := Pick(r, tagForms)
		var tag reflect.StructTag
		switch {
		case form == "":
		case form == "-," && usedDash:
		case strings.Contains(form, "%s"):
			jn := Pick(r, []string{"f%d", "F%d", "field_%d", "with space %d", "é%d", "a.b-%d", "%d"})
			tag = reflect.StructTag(fmt.Sprintf(`json:"%s"`, fmt.Sprintf(form, fmt.Sprintf(jn, i))))
		default:
			if form == "-," {
				usedDash = true
			}
			tag = reflect.StructTag(fmt.Sprintf(`json:"%s"`, form))
		}
		if r.IntN(7) == 0 { // a description tag
			if tag != "" {
				tag += " "
			}
			tag += reflect.StructTag(`jsonschema:"described field ` + fmt.Sprint(i) + `"`)
		}
		fields = append(fields, reflect.StructField{Name: name, Type: ft, Tag: tag})
	}
	defer func() { // reflect.StructOf panics for a few exotic combinations: fall back to a corpus type
		if recover() != nil {
			result = reflect.TypeFor[typecorpus.Inner]()
		}
	}()
	return reflect.StructOf(fields)
}

// SafeRandType is RandType that never returns nil.
func SafeRandType(r *rand.Rand, o TypeOpts) reflect.Type {
	for i := 0; i < 10; i++ {
		if t := RandType(r, o, 0); t != nil {
			return t
		}
	}
	return reflect.TypeFor[int]()
}

// ValueClass selects how Fill populates a value.
type ValueClass int

const (
	VZero ValueClass = iota // the zero value, but maps non-nil and embedded pointers non-nil (domain guards)
	VMin                    // minimum of every sized integer, empty containers, nil pointers/slices
	VMax                    // maximum of every sized integer, long containers, non-nil pointers
	VRandom
	VFull // everything populated with non-zero values (used by the encoding/json observer)
	NumValueClasses
)

func (v ValueClass) String() string {
	return [...]string{"zero", "min", "max", "random", "full"}[v]
}

// Fill populates v (addressable) in place.
func Fill(r *rand.Rand, v reflect.Value, class ValueClass, depth int) {
	t := v.Type()
	// standard-library types
	switch t {
	case reflect.TypeFor[time.Time]():
		if class == VZero || class == VMin {
			return
		}
		year := 1 + r.IntN(9998)
		if class == VMax {
			year = 9999
		}
		v.Set(reflect.ValueOf(time.Date(year, time.Month(1+r.IntN(12)), 1+r.IntN(28), r.IntN(24), r.IntN(60), r.IntN(60), r.IntN(1e9), time.UTC)))
		return
	case reflect.TypeFor[big.Rat]():
		v.Set(reflect.ValueOf(*big.NewRat(int64(r.IntN(100)), int64(1+r.IntN(9)))))
		return
	case reflect.TypeFor[big.Float]():
		v.Set(reflect.ValueOf(*big.NewFloat(float64(r.IntN(1000)) / 8)))
		return
	case reflect.TypeFor[json.Number]():
		if class == VZero {
			return // the empty Number is written as 0
		}
		v.SetString(Pick(r, []string{"0", "1", "-7", "2.5", "1e3", "-0.125", "12345678901234567890", "1E-2"}))
		return
	}
	switch t.Kind() {
	case reflect.Bool:
		v.SetBool(class == VMax || class == VFull || class == VRandom && r.IntN(2) == 0)
	case reflect.Int, reflect.Int8, reflect.Int16, reflect.Int32, reflect.Int64:
		bits := t.Bits()
		lo, hi := int64(math.MinInt64), int64(math.MaxInt64)
		if bits < 64 {
			lo, hi = -(1 << (bits - 1)), 1<<(bits-1)-1
		}
		switch class {
		case VMin:
			v.SetInt(lo)
		case VMax:
			v.SetInt(hi)
		case VRandom:
			v.SetInt(Pick(r, []int64{lo, hi, 0, 1, -1, lo + 1, hi - 1, int64(r.IntN(100))}))
		case VFull:
			v.SetInt(int64(1 + r.IntN(100)))
		}
	case reflect.Uint, reflect.Uint8, reflect.Uint16, reflect.Uint32, reflect.Uint64, reflect.Uintptr:
		bits := t.Bits()
		hi := uint64(math.MaxUint64)
		if bits < 64 {
			hi = 1<<bits - 1
		}
		switch class {
		case VMax:
			v.SetUint(hi)
		case VRandom:
			v.SetUint(Pick(r, []uint64{0, hi, 1, hi - 1, uint64(r.IntN(100))}))
		case VFull:
			v.SetUint(uint64(1 + r.IntN(100)))
		}
	case reflect.Float32, reflect.Float64:
		switch class {
		case VMin:
			v.SetFloat(-1e29)
		case VMax:
			v.SetFloat(1e29)
		case VRandom:
			v.SetFloat(Pick(r, []float64{0, 0.5, -0.5, 1, 100, 1e29, -1e29, 1.5, 3, float64(r.IntN(1000)) / 8}))
		case VFull:
			v.SetFloat(1.5)
		}
	case reflect.String:
		switch class {
		case VMax, VFull:
			v.SetString("é value 😀")
		case VRandom:
			v.SetString(Pick(r, Strings))
		}
	case reflect.Interface:
		var x any
		switch class {
		case VZero, VMin:
			x = nil
		case VFull:
			x = "any"
		default:
			x = Canonical(Text(Value(r, ValueOpts{MaxDepth: 2, MaxLen: 2}, 0)))
		}
		if x != nil {
			v.Set(reflect.ValueOf(x))
		}
	case reflect.Pointer:
		nilOK := class == VMin || class == VZero || (class == VRandom && r.IntN(3) == 0)
		if nilOK || depth > 8 {
			return
		}
		p := reflect.New(t.Elem())
		Fill(r, p.Elem(), class, depth+1)
		v.Set(p)
	case reflect.Slice:
		n := 0
		switch class {
		case VZero:
			return // nil slice -> JSON null
		case VMin:
			v.Set(reflect.MakeSlice(t, 0, 0)) // empty, non-nil
			return
		case VMax:
			n = 5
		case VFull:
			n = 2
		default:
			if r.IntN(4) == 0 {
				return
			}
			n = r.IntN(4)
		}
		if depth > 6 {
			n = min(n, 1)
		}
		s := reflect.MakeSlice(t, n, n)
		for i := 0; i < n; i++ {
			Fill(r, s.Index(i), class, depth+1)
		}
		v.Set(s)
	case reflect.Array:
		for i := 0; i < v.Len(); i++ {
			Fill(r, v.Index(i), class, depth+1)
		}
	case reflect.Map:
		m := reflect.MakeMap(t) // never nil: nil maps are outside the domain
		n := 0
		switch class {
		case VMax:
			n = 4
		case VFull:
			n = 2
		case VRandom:
			n = r.IntN(3)
		}
		if depth > 6 {
			n = min(n, 1)
		}
		if t.Key().Kind() != reflect.String {
			n = 0 // unsupported key kind (only met in the unsupported-types corpus)
		}
		for i := 0; i < n; i++ {
			k := reflect.New(t.Key()).Elem()
			k.SetString(Pick(r, Names) + fmt.Sprint(i))
			e := reflect.New(t.Elem()).Elem()
			Fill(r, e, class, depth+1)
			m.SetMapIndex(k, e)
		}
		v.Set(m)
	case reflect.Struct:
		for i := 0; i < t.NumField(); i++ {
			f := t.Field(i)
			if !f.IsExported() && !f.Anonymous {
				continue
			}
			fv := v.Field(i)
			if !fv.CanSet() {
				continue
			}
			if f.Anonymous && f.Type.Kind() == reflect.Pointer {
				// embedded pointers are always non-nil (nil embedded pointers are outside the domain)
				p := reflect.New(f.Type.Elem())
				Fill(r, p.Elem(), class, depth+1)
				fv.Set(p)
				continue
			}
			Fill(r, fv, class, depth+1)
		}
	}
}

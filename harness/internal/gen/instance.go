package gen

import (
	"encoding/json"
	"fmt"
	"math/big"
	"math/rand/v2"
	"strconv"
	"strings"
)

// Instances returns n instances (model form) for the schema document: a mix of
// schema-directed candidates (built to sit on the boundaries the keywords draw),
// perturbations of those, and free values from the shared pools.
func Instances(r *rand.Rand, root any, n int, smallNumbers bool, names ...string) []any {
	ig := &igen{r: r, root: root, small: smallNumbers || hasKey(root, "multipleOf"), names: names}
	if len(names) == 0 {
		ig.names = Names
	}
	out := make([]any, 0, n)
	for len(out) < n {
		var v any
		// size stress: now and then one container of the instance is stretched past the sizes at which
		// representations change (machine words, small-slice thresholds): 63..66, 127..130, 255..258
		ig.longLeft = 0
		if r.IntN(12) == 0 {
			ig.longLeft = 1
		}
		switch k := r.IntN(10); {
		case k < 6:
			v = ig.directed(root, 0)
		case k < 8:
			v = ig.perturb(ig.directed(root, 0))
		default:
			v = ig.free(0)
		}
		if ig.small {
			// multipleOf present: keep every number (also those copied from enum/const) small enough
			// that the documented float quotient decides integrality exactly
			v = ig.shrinkNumbers(Clone(v))
		}
		out = append(out, v)
	}
	return out
}

type igen struct {
	names []string
	r     *rand.Rand
	root  any
	small bool // keep numbers small (multipleOf present: float quotient must stay exact)
	// longLeft > 0: the next array/object built by directedArray/directedObject is stretched to a threshold size
	longLeft int
}

// LongSizes are the container sizes of the size-stress mode.
var LongSizes = []int{63, 64, 65, 66, 67, 127, 128, 129, 130, 200, 255, 256, 257}

// deepContains collects the contains subschemas of m and of everything applied in place to the same array.
func (g *igen) deepContains(m map[string]any, acc *[]any, depth int) {
	if c, ok := m["contains"]; ok {
		*acc = append(*acc, c)
	}
	if depth > 3 {
		return
	}
	for _, sub := range g.inPlaceSubs(m) {
		if sm := asObj(sub); sm != nil {
			g.deepContains(sm, acc, depth+1)
		}
	}
}

func hasKey(v any, key string) bool {
	switch x := v.(type) {
	case map[string]any:
		if _, ok := x[key]; ok {
			return true
		}
		for _, e := range x {
			if hasKey(e, key) {
				return true
			}
		}
	case []any:
		for _, e := range x {
			if hasKey(e, key) {
				return true
			}
		}
	}
	return false
}

func (g *igen) number() json.Number {
	for {
		t := Pick(g.r, Numbers)
		if g.small {
			if r, ok := new(big.Rat).SetString(t); ok && (r.Cmp(big.NewRat(1<<32, 1)) > 0 || r.Cmp(big.NewRat(-(1<<32), 1)) < 0) {
				continue
			}
		}
		return json.Number(t)
	}
}

func (g *igen) free(depth int) any {
	v := Value(g.r, ValueOpts{MaxDepth: 3, MaxLen: 3}, depth)
	if g.small {
		v = g.shrinkNumbers(v)
	}
	return v
}

func (g *igen) shrinkNumbers(v any) any {
	switch x := v.(type) {
	case json.Number:
		if r, ok := new(big.Rat).SetString(string(x)); ok && (r.Cmp(big.NewRat(1<<32, 1)) > 0 || r.Cmp(big.NewRat(-(1<<32), 1)) < 0) {
			return g.number()
		}
	case []any:
		for i := range x {
			x[i] = g.shrinkNumbers(x[i])
		}
	case map[string]any:
		for _, k := range sortedKeysAny(x) {
			x[k] = g.shrinkNumbers(x[k])
		}
	}
	return v
}

func (g *igen) perturb(v any) any {
	r := g.r
	switch x := v.(type) {
	case []any:
		switch {
		case len(x) > 0 && r.IntN(3) == 0:
			return x[:len(x)-1]
		case r.IntN(3) == 0:
			return append(x, g.free(2))
		case len(x) > 0:
			i := r.IntN(len(x))
			x[i] = g.perturb(x[i])
		}
		return x
	case map[string]any:
		ks := sortedKeysAny(x)
		switch {
		case len(ks) > 0 && r.IntN(3) == 0:
			delete(x, Pick(r, ks))
		case r.IntN(3) == 0:
			x[Pick(r, g.names)] = g.free(2)
		case len(ks) > 0:
			k := Pick(r, ks)
			x[k] = g.perturb(x[k])
		}
		return x
	case json.Number:
		if r.IntN(6) == 0 {
			return string(x) // the number as a string of the same text
		}
		rt, ok := new(big.Rat).SetString(string(x))
		if !ok {
			return x
		}
		d := Pick(r, []*big.Rat{big.NewRat(1, 1), big.NewRat(-1, 1), big.NewRat(1, 64), big.NewRat(-1, 64), big.NewRat(1, 2)})
		rt.Add(rt, d)
		if _, exact := rt.Float64(); !exact {
			return x // stay inside the float64-exact domain
		}
		return ratNumber(rt)
	case string:
		// a numeric string becomes the number it spells (a json.Number has Go kind string: "1" vs 1 must stay apart)
		if _, ok := new(big.Rat).SetString(x); ok && json.Valid([]byte(x)) && r.IntN(2) == 0 {
			return json.Number(x)
		}
		switch r.IntN(3) {
		case 0:
			return x + Pick(r, []string{"a", "b", "é", "😀", "0"})
		case 1:
			if len(x) > 0 {
				rs := []rune(x)
				return string(rs[:len(rs)-1])
			}
		}
		return Pick(r, Strings)
	}
	return g.free(2)
}

func ratNumber(r *big.Rat) json.Number {
	if r.IsInt() {
		return json.Number(r.Num().String())
	}
	s := r.FloatString(r.Denom().BitLen())
	s = strings.TrimRight(s, "0")
	return json.Number(s)
}

func asObj(v any) map[string]any { m, _ := v.(map[string]any); return m }

func (g *igen) resolveRef(ref string) any {
	root := asObj(g.root)
	if root == nil {
		return nil
	}
	if ref == "#" {
		return g.root
	}
	for _, dk := range []string{"$defs", "definitions"} {
		if p, ok := strings.CutPrefix(ref, "#/"+dk+"/"); ok {
			if defs := asObj(root[dk]); defs != nil {
				return defs[p]
			}
		}
		if defs := asObj(root[dk]); defs != nil && strings.HasPrefix(ref, "#") {
			for _, k := range sortedKeysAny(defs) {
				if d := asObj(defs[k]); d != nil {
					if a, _ := d["$anchor"].(string); a != "" && "#"+a == ref {
						return d
					}
					if a, _ := d["$id"].(string); a != "" && a == ref {
						return d
					}
				}
			}
		}
	}
	return nil
}

func ratOf(v any) *big.Rat {
	if n, ok := v.(json.Number); ok {
		if r, ok := new(big.Rat).SetString(string(n)); ok {
			return r
		}
	}
	return nil
}

func intOf(v any) (int, bool) {
	if r := ratOf(v); r != nil && r.IsInt() && r.Num().IsInt64() {
		return int(r.Num().Int64()), true
	}
	return 0, false
}

// directed builds an instance that tries to satisfy (or sit on the boundary of) schema s.
func (g *igen) directed(s any, depth int) any {
	r := g.r
	m := asObj(s)
	if m == nil || depth > 5 {
		return g.free(depth)
	}
	// follow applicators / references part of the time
	if r.IntN(10) < 4 {
		var cands []any
		if ref, ok := m["$ref"].(string); ok {
			if t := g.resolveRef(ref); t != nil {
				cands = append(cands, t, t)
			}
		}
		for _, k := range []string{"allOf", "anyOf", "oneOf"} {
			if a, ok := m[k].([]any); ok {
				cands = append(cands, a...)
			}
		}
		for _, k := range []string{"then", "else", "if"} {
			if sub, ok := m[k]; ok {
				cands = append(cands, sub)
			}
		}
		for _, k := range []string{"dependentSchemas", "dependencies"} {
			if dm := asObj(m[k]); dm != nil {
				for _, dk := range sortedKeysAny(dm) {
					if asObj(dm[dk]) != nil {
						cands = append(cands, dm[dk])
					}
				}
			}
		}
		if len(cands) > 0 {
			return g.directed(Pick(r, cands), depth+1)
		}
	}
	if c, ok := m["const"]; ok && r.IntN(10) < 7 {
		return Clone(c)
	}
	if e, ok := m["enum"].([]any); ok && len(e) > 0 && r.IntN(10) < 7 {
		return Clone(Pick(r, e))
	}
	// choose a JSON type
	var types []string
	switch t := m["type"].(type) {
	case string:
		types = []string{t}
	case []any:
		for _, x := range t {
			if sx, ok := x.(string); ok {
				types = append(types, sx)
			}
		}
	}
	if len(types) == 0 || r.IntN(10) == 0 {
		for _, k := range []string{"properties", "required", "patternProperties", "additionalProperties", "minProperties", "maxProperties", "propertyNames", "dependentRequired", "dependentSchemas", "dependencies", "unevaluatedProperties"} {
			if _, ok := m[k]; ok {
				types = append(types, "object")
			}
		}
		for _, k := range []string{"prefixItems", "items", "contains", "minItems", "maxItems", "uniqueItems", "unevaluatedItems", "additionalItems", "minContains", "maxContains"} {
			if _, ok := m[k]; ok {
				types = append(types, "array")
			}
		}
		for _, k := range []string{"minimum", "maximum", "exclusiveMinimum", "exclusiveMaximum", "multipleOf"} {
			if _, ok := m[k]; ok {
				types = append(types, "number")
			}
		}
		for _, k := range []string{"minLength", "maxLength", "pattern"} {
			if _, ok := m[k]; ok {
				types = append(types, "string")
			}
		}
	}
	if len(types) == 0 {
		return g.free(depth)
	}
	switch Pick(r, types) {
	case "null":
		return nil
	case "boolean":
		return r.IntN(2) == 0
	case "integer", "number":
		return g.directedNumber(m)
	case "string":
		return g.directedString(m)
	case "array":
		return g.directedArray(m, depth)
	case "object":
		return g.directedObject(m, depth)
	}
	return g.free(depth)
}

func (g *igen) directedNumber(m map[string]any) any {
	r := g.r
	var cands []*big.Rat
	for _, k := range []string{"minimum", "maximum", "exclusiveMinimum", "exclusiveMaximum"} {
		if b := ratOf(m[k]); b != nil {
			for _, d := range []*big.Rat{big.NewRat(0, 1), big.NewRat(1, 1), big.NewRat(-1, 1), big.NewRat(1, 64), big.NewRat(-1, 64)} {
				cands = append(cands, new(big.Rat).Add(b, d))
			}
		}
	}
	if mo := ratOf(m["multipleOf"]); mo != nil {
		for _, k := range []int64{0, 1, 2, 3, -1, 7} {
			cands = append(cands, new(big.Rat).Mul(mo, big.NewRat(k, 1)))
		}
		cands = append(cands, new(big.Rat).Add(mo, big.NewRat(1, 4)))
	}
	if len(cands) == 0 || r.IntN(5) == 0 {
		return g.number()
	}
	c := Pick(r, cands)
	if g.small && (c.Cmp(big.NewRat(1<<32, 1)) > 0 || c.Cmp(big.NewRat(-(1<<32), 1)) < 0) {
		return g.number()
	}
	if _, exact := c.Float64(); !exact {
		return g.number() // stay inside the float64-exact domain
	}
	return ratNumber(c)
}

func (g *igen) directedString(m map[string]any) any {
	r := g.r
	units := []string{"a", "b", "é", "😀", "0", "ab"}
	target := r.IntN(4)
	if n, ok := intOf(m["minLength"]); ok && r.IntN(2) == 0 {
		target = n + r.IntN(3) - 1
	}
	if n, ok := intOf(m["maxLength"]); ok && r.IntN(2) == 0 {
		target = n + r.IntN(3) - 1
	}
	if target < 0 {
		target = 0
	}
	if _, ok := m["pattern"]; ok && r.IntN(2) == 0 {
		return Pick(r, []string{"a", "b", "ab", "ba", "", "0", "a0", "é", "aa", "bb", "abab"})
	}
	if r.IntN(5) == 0 {
		// a string of one kind of wide code point only: byte length, UTF-16 length and code-point length all differ
		u := Pick(r, []string{"😀", "𝒳", "é", "日", "\U0010FFFF", "ß"})
		return strings.Repeat(u, target)
	}
	var sb strings.Builder
	for i := 0; i < target; i++ {
		u := Pick(r, units)
		if len([]rune(u)) > 1 {
			u = "a"
		}
		sb.WriteString(u)
	}
	return sb.String()
}

func (g *igen) directedArray(m map[string]any, depth int) any {
	r := g.r
	n := r.IntN(4)
	prefix, _ := m["prefixItems"].([]any)
	if prefix == nil {
		prefix, _ = m["items"].([]any)
	}
	if r.IntN(3) == 0 { // a prefix that an in-place applicator (cousin) talks about
		var cands [][]any
		g.deepPrefixes(m, &cands, 0)
		if len(cands) > 0 {
			prefix = Pick(r, cands)
		}
	}
	if prefix != nil && r.IntN(2) == 0 {
		n = len(prefix) + r.IntN(3) - 1
	}
	for _, k := range []string{"minItems", "maxItems"} {
		if b, ok := intOf(m[k]); ok && r.IntN(3) == 0 {
			n = b + r.IntN(3) - 1
		}
	}
	if n < 0 {
		n = 0
	}
	if n > 6 {
		n = 6
	}
	long := false
	var contains []any
	if g.longLeft > 0 && depth <= 2 && r.IntN(3) > 0 {
		g.longLeft--
		long = true
		n = Pick(r, LongSizes)
		g.deepContains(m, &contains, 0)
	}
	out := make([]any, n)
	for i := range out {
		var sub any
		if long && i >= 6 && i < n-3 && i != 63 && i != 64 && i != 127 && i != 128 && r.IntN(8) > 0 {
			// the bulk of a long array repeats earlier items (cheap); the items next to a size boundary and
			// the last ones are built individually below
			out[i] = Clone(out[r.IntN(6)])
			continue
		}
		if long && len(contains) > 0 && r.IntN(2) == 0 {
			out[i] = g.directed(Pick(r, contains), depth+2)
			continue
		}
		switch {
		case i < len(prefix):
			sub = prefix[i]
		case m["items"] != nil && asObj(m["items"]) != nil:
			sub = m["items"]
		case m["additionalItems"] != nil:
			sub = m["additionalItems"]
		case m["unevaluatedItems"] != nil:
			sub = m["unevaluatedItems"]
		}
		if c, ok := m["contains"]; ok && r.IntN(3) == 0 {
			sub = c
		}
		if sub != nil && r.IntN(5) > 0 {
			out[i] = g.directed(sub, depth+1)
		} else {
			out[i] = g.free(depth + 2)
		}
	}
	if _, ok := m["uniqueItems"]; ok && n >= 2 && r.IntN(3) == 0 {
		out[n-1] = Clone(out[0]) // plant a duplicate
		if r.IntN(2) == 0 {
			out[n-1] = Respell(r, out[n-1]) // equal but not identical: 0 / -0 / 0.0, 1 / 1.0 / 1e0 (also inside containers)
		}
	}
	return out
}

func (g *igen) directedObject(m map[string]any, depth int) any {
	r := g.r
	out := map[string]any{}
	props := asObj(m["properties"])
	for _, k := range sortedKeysAny(props) {
		if r.IntN(10) < 7 {
			out[k] = g.directed(props[k], depth+1)
		}
	}
	// names that in-place applicators (cousins) talk about
	deep := map[string]any{}
	g.deepProps(m, deep, 0)
	for _, k := range sortedKeysAny(deep) {
		if _, present := out[k]; !present && r.IntN(10) < 5 {
			if r.IntN(3) == 0 {
				out[k] = g.free(depth + 2)
			} else {
				out[k] = g.directed(deep[k], depth+1)
			}
		}
	}
	if req, ok := m["required"].([]any); ok {
		for _, q := range req {
			if name, ok := q.(string); ok && r.IntN(10) < 8 {
				if _, present := out[name]; !present {
					if props != nil && props[name] != nil {
						out[name] = g.directed(props[name], depth+1)
					} else if ap, ok := m["additionalProperties"]; ok {
						out[name] = g.directed(ap, depth+1)
					} else {
						out[name] = g.free(depth + 2)
					}
				}
			}
		}
	}
	for _, dk := range []string{"dependentRequired", "dependencies"} {
		if dm := asObj(m[dk]); dm != nil {
			for _, k := range sortedKeysAny(dm) {
				if _, present := out[k]; present || r.IntN(3) == 0 {
					if _, present := out[k]; !present {
						out[k] = g.free(depth + 2)
					}
					if l, ok := dm[k].([]any); ok && r.IntN(4) > 0 {
						for _, q := range l {
							if name, ok := q.(string); ok {
								if _, present := out[name]; !present {
									out[name] = g.free(depth + 2)
								}
							}
						}
					}
				}
			}
		}
	}
	// extra names (may or may not match patternProperties / additionalProperties / unevaluatedProperties)
	for i := r.IntN(3); i > 0; i-- {
		name := Pick(r, g.names)
		if _, present := out[name]; present {
			continue
		}
		var sub any
		if pp := asObj(m["patternProperties"]); len(pp) > 0 && r.IntN(2) == 0 {
			sub = pp[Pick(r, sortedKeysAny(pp))]
		} else if ap, ok := m["additionalProperties"]; ok {
			sub = ap
		} else if up, ok := m["unevaluatedProperties"]; ok {
			sub = up
		}
		if sub != nil && r.IntN(4) > 0 {
			out[name] = g.directed(sub, depth+1)
		} else {
			out[name] = g.free(depth + 2)
		}
	}
	for _, k := range []string{"minProperties", "maxProperties"} {
		if b, ok := intOf(m[k]); ok && r.IntN(3) == 0 {
			ks := sortedKeysAny(out)
			for len(ks) > b && len(ks) > 0 {
				delete(out, ks[len(ks)-1])
				ks = ks[:len(ks)-1]
			}
			for tries := 0; len(out) < b && len(out) < 6 && tries < 24; tries++ { // (the name pool may hold fewer than 6 names)
				out[Pick(r, g.names)] = g.free(depth + 2)
			}
		}
	}
	if g.longLeft > 0 && depth <= 2 && r.IntN(3) > 0 {
		// size stress: many more properties than any schema names; values repeat a few built ones
		g.longLeft--
		var pool []any
		for _, k := range sortedKeysAny(out) {
			pool = append(pool, out[k])
		}
		for i := 0; i < 3; i++ {
			pool = append(pool, g.free(depth+2))
		}
		for _, k := range []string{"additionalProperties", "unevaluatedProperties"} {
			if sub, ok := m[k]; ok {
				pool = append(pool, g.directed(sub, depth+1), g.directed(sub, depth+1))
			}
		}
		n := Pick(r, LongSizes)
		pre := Pick(r, []string{"k", "a", "z", "x-", "~"})
		for i := 0; len(out) < n; i++ {
			out[pre+strconv.Itoa(i)] = Clone(Pick(r, pool))
		}
	}
	return out
}

// inPlaceSubs lists the subschemas applied in place to the same instance location.
func (g *igen) inPlaceSubs(m map[string]any) []any {
	var out []any
	for _, k := range []string{"allOf", "anyOf", "oneOf"} {
		if a, ok := m[k].([]any); ok {
			out = append(out, a...)
		}
	}
	for _, k := range []string{"if", "then", "else", "not"} {
		if sub, ok := m[k]; ok {
			out = append(out, sub)
		}
	}
	for _, k := range []string{"dependentSchemas", "dependencies"} {
		if dm := asObj(m[k]); dm != nil {
			for _, dk := range sortedKeysAny(dm) {
				if asObj(dm[dk]) != nil {
					out = append(out, dm[dk])
				}
			}
		}
	}
	if ref, ok := m["$ref"].(string); ok {
		if t := g.resolveRef(ref); t != nil {
			out = append(out, t)
		}
	}
	return out
}

func (g *igen) deepProps(m map[string]any, acc map[string]any, depth int) {
	if depth > 3 {
		return
	}
	for _, sub := range g.inPlaceSubs(m) {
		sm := asObj(sub)
		if sm == nil {
			continue
		}
		if props := asObj(sm["properties"]); props != nil {
			for k, v := range props {
				if _, ok := acc[k]; !ok {
					acc[k] = v
				}
			}
		}
		if dm := asObj(sm["dependentSchemas"]); dm != nil {
			for k := range dm {
				if _, ok := acc[k]; !ok {
					acc[k] = true
				}
			}
		}
		if req, ok := sm["required"].([]any); ok {
			for _, q := range req {
				if name, ok := q.(string); ok {
					if _, ok := acc[name]; !ok {
						acc[name] = true
					}
				}
			}
		}
		g.deepProps(sm, acc, depth+1)
	}
}

func (g *igen) deepPrefixes(m map[string]any, acc *[][]any, depth int) {
	if depth > 3 {
		return
	}
	for _, sub := range g.inPlaceSubs(m) {
		sm := asObj(sub)
		if sm == nil {
			continue
		}
		if p, ok := sm["prefixItems"].([]any); ok {
			*acc = append(*acc, p)
		}
		if p, ok := sm["items"].([]any); ok {
			*acc = append(*acc, p)
		}
		g.deepPrefixes(sm, acc, depth+1)
	}
}

// Respell rewrites numbers inside v in another spelling of the same value (exactly representable in float64).
func Respell(r *rand.Rand, v any) any {
	switch x := v.(type) {
	case json.Number:
		rt, ok := new(big.Rat).SetString(string(x))
		if !ok {
			return x
		}
		if rt.Sign() == 0 {
			return json.Number(Pick(r, []string{"0", "-0", "0.0", "-0.0", "0e0", "-0e1"}))
		}
		if rt.IsInt() && rt.Num().BitLen() < 50 {
			return json.Number(rt.Num().String() + Pick(r, []string{".0", "e0", ".00", "0e-1", "E0", "00E-2", "0E-1", "E+0"}))
		}
		if num, k, ok := decimalParts(rt); ok && k > 0 {
			// a fraction without a decimal point (5E-1), with a shifted exponent (50e-2) or with trailing zeros (0.50)
			switch r.IntN(4) {
			case 0:
				return json.Number(fmt.Sprintf("%sE-%d", num, k))
			case 1:
				return json.Number(fmt.Sprintf("%se-%d", num, k))
			case 2:
				return json.Number(fmt.Sprintf("%s0e-%d", num, k+1))
			default:
				if strings.Contains(string(x), ".") && !strings.ContainsAny(string(x), "eE") {
					return json.Number(string(x) + "0") // (only a plain decimal can take a trailing zero)
				}
				return json.Number(fmt.Sprintf("%sE-%d", num, k))
			}
		}
		return x
	case []any:
		for i := range x {
			x[i] = Respell(r, x[i])
		}
		return x
	case map[string]any:
		for _, k := range sortedKeysAny(x) {
			x[k] = Respell(r, x[k])
		}
		return x
	}
	return v
}

// LongValue returns a size-stressed free value: an array or object whose length sits on one of LongSizes,
// over a handful of small values (so that contains / uniqueItems / enum see both matches and misses).
func LongValue(r *rand.Rand) any {
	pool := []any{json.Number("1"), "x", nil, true, json.Number("2.5"), []any{}, map[string]any{}, "a"}
	for i := 0; i < 2; i++ {
		pool = append(pool, Value(r, ValueOpts{MaxDepth: 2, MaxLen: 3}, 1))
	}
	n := Pick(r, LongSizes)
	if r.IntN(3) > 0 {
		a := make([]any, n)
		dom := r.IntN(len(pool))
		for i := range a {
			if r.IntN(4) == 0 || i == 63 || i == 64 || i == n-1 {
				a[i] = Clone(Pick(r, pool))
			} else {
				a[i] = Clone(pool[dom])
			}
		}
		return a
	}
	m := map[string]any{}
	for _, k := range Names[:3] {
		m[k] = Clone(Pick(r, pool))
	}
	for i := 0; len(m) < n; i++ {
		m["k"+strconv.Itoa(i)] = Clone(Pick(r, pool))
	}
	return m
}

package gen

import (
	"fmt"
	"math/rand/v2"
	"strings"
)

// Textual layout. A JSON document means the same whatever insignificant whitespace it carries and in whatever
// order an object lists its members (RFC 8259); the serialisers of this harness always emit the compact form
// with sorted keys, which no hand-written document has. Relayout and TextShuffled re-spell a document.

var wsForms = []string{"", "", "", " ", " ", "\n", "\t", "\r\n", "  ", " \n\t ", "\n\n"}

// Relayout inserts random insignificant whitespace before and after the structural characters of a JSON text
// (outside strings). The token sequence stays the same; in one document out of three some ASCII letters, digits and
// '/' inside strings (keys and values alike) are written as \uXXXX escapes or '\/', which spell the same strings (RFC 8259 section 7).
func Relayout(r *rand.Rand, text string) string {
	var sb strings.Builder
	sb.WriteString(Pick(r, wsForms))
	inStr, esc := false, false
	escapes := r.IntN(3) == 0
	hexLeft := 0 // digits of a \uXXXX escape still to copy
	for i := 0; i < len(text); i++ {
		ch := text[i]
		if inStr {
			if hexLeft > 0 {
				hexLeft--
				sb.WriteByte(ch)
				continue
			}
			if escapes && !esc && r.IntN(6) == 0 && (ch >= 'a' && ch <= 'z' || ch >= 'A' && ch <= 'Z' || ch >= '0' && ch <= '9' || ch == '/' || ch == '$' || ch == '#') {
				if ch == '/' && r.IntN(2) == 0 {
					sb.WriteString("\\/")
				} else if r.IntN(2) == 0 {
					fmt.Fprintf(&sb, "\\u%04x", ch)
				} else {
					fmt.Fprintf(&sb, "\\u%04X", ch)
				}
				continue
			}
			sb.WriteByte(ch)
			switch {
			case esc:
				esc = false
				if ch == 'u' {
					hexLeft = 4
				}
			case ch == '\\':
				esc = true
			case ch == '"':
				inStr = false
			}
			continue
		}
		switch ch {
		case '"':
			inStr = true
			sb.WriteByte(ch)
		case '{', '}', '[', ']', ':', ',':
			sb.WriteString(Pick(r, wsForms))
			sb.WriteByte(ch)
			sb.WriteString(Pick(r, wsForms))
		default:
			sb.WriteByte(ch)
		}
	}
	sb.WriteString(Pick(r, wsForms))
	return sb.String()
}

// TextShuffled serialises a model-form value with the members of every object in random order and,
// with layout, random insignificant whitespace.
func TextShuffled(r *rand.Rand, v any, layout bool) string {
	var sb strings.Builder
	var emit func(v any)
	emit = func(v any) {
		switch x := v.(type) {
		case map[string]any:
			ks := sortedKeysAny(x)
			r.Shuffle(len(ks), func(i, j int) { ks[i], ks[j] = ks[j], ks[i] })
			sb.WriteByte('{')
			for i, k := range ks {
				if i > 0 {
					sb.WriteByte(',')
				}
				sb.WriteString(Text(k))
				sb.WriteByte(':')
				emit(x[k])
			}
			sb.WriteByte('}')
		case []any:
			sb.WriteByte('[')
			for i, e := range x {
				if i > 0 {
					sb.WriteByte(',')
				}
				emit(e)
			}
			sb.WriteByte(']')
		default:
			sb.WriteString(Text(x))
		}
	}
	emit(v)
	if layout {
		return Relayout(r, sb.String())
	}
	return sb.String()
}

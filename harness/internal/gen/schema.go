package gen

import (
	"encoding/json"
	"fmt"
	"math/rand/v2"
)

// Draft selects the vocabulary.
type Draft int

const (
	D2020 Draft = iota
	D7
)

const (
	Schema2020URI = "https://json-schema.org/draft/2020-12/schema"
	Schema7URI    = "http://json-schema.org/draft-07/schema#"
	Schema7URIs   = "https://json-schema.org/draft-07/schema#"
)

var (
	// (literals anchored at both ends next to names that contain them; escapes: an escaped backslash followed by u / x / d)
	Patterns   = []string{"^a", "b$", "a|b", "^$", "[0-9]", "^.{2}$", "é", "^[ab]+$", "^a$", "^ab$", "a", "^a b$", `^\\usr$`, `\\u12`, `\.`, `^\d+$`, `\\x4`}
	MultipleOf = []string{"1", "2", "3", "5", "0.5", "0.25", "0.125", "1.5", "2.5"}
	// small numbers used by numeric keywords (exact in float64); a few large boundary values
	SchemaNumbers = []string{"0", "1", "-1", "2", "3", "5", "10", "0.5", "-0.5", "1.5", "2.5", "0.25", "1.0", "2.0", "1e0", "100", "127", "255", "256", "-128", "65535", "2147483647", "9007199254740992"}
	TypeNames     = []string{"null", "boolean", "object", "array", "number", "string", "integer"}
)

type SchemaOpts struct {
	// NoStress switches the size stress (StressSchema, one document in 12) off.
	NoStress bool
	Draft    Draft
	MaxDepth int
	Refs     bool   // $defs/definitions + $ref (+ $anchor)
	Uneval   bool   // unevaluatedProperties / unevaluatedItems (2020-12 only)
	Focus    string // "", or a group name to bias the root towards
	NoMeta   bool   // never emit annotation keywords
	Names    []string
}

type sgen struct {
	forceGroup string
	r          *rand.Rand
	o          SchemaOpts
	ndefs      int
	names      []string
}

// Schema generates a schema document in model form (map[string]any or bool).
// With Refs it is an object whose $defs are numbered d0..dk; in-place references only go to
// higher-numbered definitions, so every reference cycle passes through an instance-descending keyword.
func Schema(r *rand.Rand, o SchemaOpts) any {
	doc := schema0(r, o)
	if !o.NoStress && r.IntN(12) == 0 {
		StressSchema(r, doc, o.Draft)
	}
	if !o.NoStress && r.IntN(10) == 0 {
		ForeignKeywords(r, doc, o.Draft, o.Names)
	}
	return doc
}

func schema0(r *rand.Rand, o SchemaOpts) any {
	g := &sgen{r: r, o: o, names: o.Names}
	if g.names == nil {
		g.names = Names
	}
	if o.MaxDepth == 0 {
		g.o.MaxDepth = 4
	}
	if o.Refs {
		g.ndefs = 1 + r.IntN(3)
	}
	root := g.schema(0, o.Focus, -1, true, true)
	obj, isObj := root.(map[string]any)
	if o.Refs {
		if !isObj {
			obj = map[string]any{}
			if root == false {
				obj["not"] = map[string]any{}
			}
		}
		defs := map[string]any{}
		for i := 0; i < g.ndefs; i++ {
			d := g.schema(1, "", i, true, false)
			if dm, ok := d.(map[string]any); ok && r.IntN(3) == 0 && o.Draft == D2020 {
				dm["$anchor"] = fmt.Sprintf("A%d", i)
			} else if ok && r.IntN(3) == 0 && o.Draft == D7 {
				if _, hasRef := dm["$ref"]; !hasRef {
					dm["$id"] = fmt.Sprintf(Pick(r, []string{"#A%d", "#A%d", "#n:%d", "#a.b_%d", "#x-%d:"}), i) // (draft-07 plain names may hold ':' and '.')
				}
			}
			defs[fmt.Sprintf("d%d", i)] = d
		}
		if o.Draft == D7 && g.ndefs >= 2 && r.IntN(4) == 0 {
			// a fragment $id BESIDE a $ref is ignored like every other sibling (draft-07): the name it carries belongs to the
			// definition that legitimately declares it further down (or to nobody)
			first, _ := defs["d0"].(map[string]any)
			last, _ := defs[fmt.Sprintf("d%d", g.ndefs-1)].(map[string]any)
			if first != nil && last != nil {
				if _, lastHasRef := last["$ref"]; !lastHasRef {
					if _, has := first["$ref"]; !has {
						first["$ref"] = fmt.Sprintf("#/definitions/d%d", g.ndefs-1)
					}
					name := fmt.Sprintf("#A%d", g.ndefs-1)
					last["$id"] = name
					first["$id"] = name
				}
			}
		}
		if o.Draft == D7 {
			obj["definitions"] = defs
		} else {
			obj["$defs"] = defs
		}
		// use the anchor form for some references to definitions that carry an anchor
		anch := map[string]string{}
		for i := 0; i < g.ndefs; i++ {
			if dm, ok := defs[fmt.Sprintf("d%d", i)].(map[string]any); ok {
				if _, ok := dm["$anchor"]; ok {
					anch[fmt.Sprintf("#/$defs/d%d", i)] = fmt.Sprintf("#A%d", i)
				}
				if id, ok := dm["$id"].(string); ok {
					anch[fmt.Sprintf("#/definitions/d%d", i)] = id
				}
			}
		}
		var walk func(v any)
		walk = func(v any) {
			switch x := v.(type) {
			case map[string]any:
				for _, k := range sortedKeysAny(x) {
					if k == "$ref" {
						if a, ok := anch[fmt.Sprint(x[k])]; ok && r.IntN(2) == 0 {
							x[k] = a
						}
						continue
					}
					walk(x[k])
				}
			case []any:
				for _, e := range x {
					walk(e)
				}
			}
		}
		walk(obj)
		return obj
	}
	return root
}

func (g *sgen) num() json.Number { return json.Number(Pick(g.r, SchemaNumbers)) }
func (g *sgen) smallInt() json.Number {
	n := g.r.IntN(5)
	if g.r.IntN(8) == 0 {
		// the same integer in another lexical form (JSON Schema means the mathematical integer)
		forms := []string{"%d.0", "%d.0", "%de0", "%dE0", "%d.0e0", "%de+0", "%d.00"}
		if n > 0 {
			forms = append(forms, "%d0e-1", "%d00E-2")
		}
		return json.Number(fmt.Sprintf(Pick(g.r, forms), n))
	}
	return json.Number(fmt.Sprint(n))
}

var groups = []string{"object", "array", "numeric", "string", "generic", "logic"}

func (g *sgen) keywordsOf(group string) []string {
	d7 := g.o.Draft == D7
	switch group {
	case "object":
		ks := []string{"properties", "patternProperties", "additionalProperties", "propertyNames", "required", "minProperties", "maxProperties", "type:object"}
		if d7 {
			ks = append(ks, "dependencies", "dependencies")
		} else {
			ks = append(ks, "dependentRequired", "dependentSchemas")
			if g.o.Uneval {
				ks = append(ks, "unevaluatedProperties", "unevaluatedProperties")
			}
		}
		return ks
	case "array":
		ks := []string{"items", "contains", "minItems", "maxItems", "uniqueItems", "type:array"}
		if d7 {
			ks = append(ks, "itemsArray", "itemsArray", "additionalItems", "additionalItems")
		} else {
			ks = append(ks, "prefixItems", "prefixItems", "minContains", "maxContains")
			if g.o.Uneval {
				ks = append(ks, "unevaluatedItems", "unevaluatedItems")
			}
		}
		return ks
	case "numeric":
		return []string{"type:number", "type:integer", "minimum", "maximum", "exclusiveMinimum", "exclusiveMaximum", "multipleOf"}
	case "string":
		return []string{"type:string", "minLength", "maxLength", "pattern"}
	case "generic":
		return []string{"type", "type", "enum", "const"}
	case "logic":
		return []string{"allOf", "anyOf", "oneOf", "not", "if", "then", "else"}
	}
	return nil
}

// schema generates one subschema. curDef is the index of the enclosing definition (-1 = root tree),
// inPlace tells whether no instance-descending keyword was crossed since the root of that tree.
func (g *sgen) schema(depth int, parentGroup string, curDef int, inPlace bool, isRoot bool) any {
	r := g.r
	if !isRoot && r.IntN(8) == 0 {
		if r.IntN(4) == 0 {
			return map[string]any{} // the empty schema object: same meaning as true, different representation
		}
		return r.IntN(5) < 3
	}
	if depth >= g.o.MaxDepth {
		// leaf: a single simple assertion
		switch r.IntN(5) {
		case 0:
			return map[string]any{"type": Pick(r, TypeNames)}
		case 1:
			return map[string]any{"const": g.value(1)}
		case 2:
			return map[string]any{"minimum": g.num()}
		case 3:
			return map[string]any{"minLength": g.smallInt()}
		default:
			return r.IntN(3) > 0
		}
	}
	group := parentGroup
	if group == "" || r.IntN(10) >= 6 {
		group = Pick(r, groups)
	}
	if g.forceGroup != "" && r.IntN(10) < 8 {
		group = g.forceGroup
	}
	s := map[string]any{}
	own := g.keywordsOf(group)
	n := 2 + r.IntN(3)
	for i := 0; i < n; i++ {
		g.addKeyword(s, Pick(r, own), depth, group, curDef, inPlace)
	}
	for i := r.IntN(3); i > 0; i-- {
		og := Pick(r, groups)
		g.addKeyword(s, Pick(r, g.keywordsOf(og)), depth, group, curDef, inPlace)
	}
	// interaction faults live where an in-place applicator sits next to object/array keywords and its
	// branches talk about the same properties/items: force that combination often
	if (group == "object" || group == "array") && r.IntN(10) < 4 {
		saved := g.forceGroup
		g.forceGroup = group
		g.addKeyword(s, Pick(r, []string{"allOf", "anyOf", "oneOf", "if", "not", "allOf", "anyOf"}), depth, group, curDef, inPlace)
		if group == "object" && g.o.Draft == D2020 && r.IntN(3) == 0 {
			g.addKeyword(s, "dependentSchemas", depth, group, curDef, inPlace)
		}
		g.forceGroup = saved
	}
	if group == "array" && g.o.Draft == D7 && r.IntN(5) == 0 {
		// draft-07 tuple + additionalItems beside an in-place branch whose schema-form items covers every element: what the
		// branch evaluated is no business of additionalItems (annotations exist in 2020-12 only)
		if _, has := s["items"]; !has {
			s["items"] = []any{g.sub(depth, group, curDef, false)}
		}
		if _, isTuple := s["items"].([]any); isTuple {
			s["additionalItems"] = g.sub(depth, "numeric", curDef, false)
			branch := map[string]any{"items": Pick(r, []any{true, map[string]any{}, map[string]any{"type": Pick(r, []string{"integer", "number", "string"})}})}
			kw := Pick(r, []string{"allOf", "anyOf", "oneOf", "if"})
			if kw == "if" {
				s["if"] = branch
			} else {
				old, _ := s[kw].([]any)
				s[kw] = append(append([]any{}, old...), branch)
			}
		}
	}
	if g.o.Refs && r.IntN(4) == 0 {
		if ref, ok := g.ref(curDef, inPlace); ok {
			s["$ref"] = ref
			if g.o.Draft == D7 && r.IntN(3) == 0 {
				// siblings that would reject everything if draft-07 did not ignore them beside $ref
				s[Pick(r, []string{"not", "not", "allOf", "enum", "type"})] = Pick(r, []any{true, map[string]any{}})
				if _, has := s["allOf"]; has {
					s["allOf"] = []any{false}
				}
				if _, bad := s["enum"].(bool); bad {
					s["enum"] = []any{}
				} else if _, bad := s["enum"].(map[string]any); bad {
					s["enum"] = []any{}
				}
				if _, ok := s["type"].(string); !ok {
					if _, has := s["type"]; has {
						s["type"] = "null"
					}
				}
			}
		}
	}
	if !g.o.NoMeta && r.IntN(12) == 0 {
		s[Pick(r, []string{"title", "description", "$comment"})] = "t"
	}
	// keep min/max pairs loosely consistent so that not everything is unsatisfiable
	return s
}

func (g *sgen) ref(curDef int, inPlace bool) (string, bool) {
	r := g.r
	if g.ndefs == 0 {
		if !inPlace {
			return "#", true
		}
		return "", false
	}
	lo := 0
	if inPlace {
		lo = curDef + 1 // only higher-numbered definitions in place
	} else if r.IntN(4) == 0 {
		return "#", true
	}
	if lo >= g.ndefs {
		return "", false
	}
	i := lo + r.IntN(g.ndefs-lo)
	// Anchor forms are only used when the generator put the anchor there; since that is decided later,
	// pointer form is the default and the anchor form is patched in by FixAnchors.
	if g.o.Draft == D7 {
		return fmt.Sprintf("#/definitions/d%d", i), true
	}
	return fmt.Sprintf("#/$defs/d%d", i), true
}

func (g *sgen) sub(depth int, group string, curDef int, inPlace bool) any {
	return g.schema(depth+1, group, curDef, inPlace, false)
}

func (g *sgen) subs(depth int, group string, curDef int, inPlace bool, lo, hi int) []any {
	n := lo + g.r.IntN(hi-lo+1)
	out := make([]any, n)
	for i := range out {
		out[i] = g.sub(depth, group, curDef, inPlace)
	}
	return out
}

func (g *sgen) someNames(lo, hi int) []any {
	n := lo + g.r.IntN(hi-lo+1)
	seen := map[string]bool{}
	out := []any{}
	for len(out) < n {
		nm := Pick(g.r, g.names)
		if !seen[nm] {
			seen[nm] = true
			out = append(out, nm)
		}
		if len(seen) == len(g.names) {
			break
		}
	}
	return out
}

func (g *sgen) value(maxDepth int) any {
	return Value(g.r, ValueOpts{MaxDepth: maxDepth, MaxLen: 2}, 0)
}

func (g *sgen) addKeyword(s map[string]any, kw string, depth int, group string, curDef int, inPlace bool) {
	r := g.r
	switch kw {
	case "type:object", "type:array", "type:number", "type:integer", "type:string":
		if _, ok := s["type"]; !ok {
			s["type"] = kw[5:]
		}
	case "type":
		if r.IntN(2) == 0 {
			s["type"] = Pick(r, TypeNames)
		} else {
			n := 1 + r.IntN(3)
			seen := map[string]bool{}
			var ts []any
			for len(ts) < n {
				t := Pick(r, TypeNames)
				if !seen[t] {
					seen[t] = true
					ts = append(ts, t)
				}
			}
			s["type"] = ts
		}
	case "enum":
		n := 1 + r.IntN(4)
		vals := make([]any, n)
		for i := range vals {
			vals[i] = g.value(2)
		}
		if r.IntN(5) == 0 {
			// strings only, several of them spelling numbers / literals: "1" is not 1, "null" is not null
			for i := range vals {
				vals[i] = Pick(r, []string{"0", "1", "2", "-1", "1.5", "1e2", "true", "null", "a", ""})
			}
		}
		s["enum"] = vals
	case "const":
		s["const"] = g.value(2)
	case "minimum", "maximum", "exclusiveMinimum", "exclusiveMaximum":
		s[kw] = g.num()
	case "multipleOf":
		s[kw] = json.Number(Pick(r, MultipleOf))
	case "minLength", "maxLength", "minItems", "maxItems", "minProperties", "maxProperties", "minContains", "maxContains":
		s[kw] = g.smallInt()
	case "pattern":
		s[kw] = Pick(r, Patterns)
	case "uniqueItems":
		s[kw] = r.IntN(4) > 0
	case "required":
		s[kw] = g.someNames(1, 2)
	case "properties", "dependentSchemas":
		m := map[string]any{}
		for _, nm := range g.someNames(1, 3) {
			m[nm.(string)] = g.sub(depth, group, curDef, kw == "dependentSchemas" && inPlace)
		}
		s[kw] = m
	case "patternProperties":
		m := map[string]any{}
		for i := 1 + r.IntN(2); i > 0; i-- {
			m[Pick(r, Patterns)] = g.sub(depth, group, curDef, false)
		}
		s[kw] = m
	case "additionalProperties", "unevaluatedProperties", "items", "additionalItems", "unevaluatedItems", "contains":
		s[kw] = g.sub(depth, group, curDef, false)
	case "propertyNames":
		s[kw] = g.sub(depth, "string", curDef, false)
	case "dependentRequired":
		m := map[string]any{}
		for _, nm := range g.someNames(1, 2) {
			m[nm.(string)] = g.someNames(0, 2)
			if m[nm.(string)] == nil {
				m[nm.(string)] = []any{}
			}
		}
		s[kw] = m
	case "dependencies":
		m := map[string]any{}
		for _, nm := range g.someNames(1, 3) {
			if r.IntN(2) == 0 {
				l := g.someNames(0, 2)
				if l == nil {
					l = []any{}
				}
				m[nm.(string)] = l
			} else {
				m[nm.(string)] = g.sub(depth, group, curDef, inPlace)
			}
		}
		s[kw] = m
	case "prefixItems":
		s[kw] = g.subs(depth, group, curDef, false, 1, 3)
	case "itemsArray":
		s["items"] = g.subs(depth, group, curDef, false, 1, 3)
	case "allOf", "anyOf", "oneOf":
		s[kw] = g.subs(depth, group, curDef, inPlace, 1, 3)
	case "not", "if", "then", "else":
		s[kw] = g.sub(depth, group, curDef, inPlace)
		if kw == "if" && r.IntN(3) > 0 {
			s[Pick(r, []string{"then", "else"})] = g.sub(depth, group, curDef, inPlace)
		}
	}
}

func sortedKeysAny(m map[string]any) []string {
	ks := make([]string, 0, len(m))
	for k := range m {
		ks = append(ks, k)
	}
	sortStrings(ks)
	return ks
}

package gen

import (
	"fmt"
	"math/rand/v2"
	"net/url"
	"path"
	"strings"
)

// Universe is a reference topology: a root document plus loader documents, with uniquely marked
// targets and structural routes to every $ref under test.
type Universe struct {
	D7       bool
	BaseURI  string
	Root     string            // JSON text
	Docs     map[string]string // loader documents by absolute URI (retrieval URI and, as an alias, canonical id)
	Markers  []string          // marker instances: "T<k>" accepted only by leaf k, "N<k>" rejected only by container k
	Routes   []URoute
	LoadErr  map[string]bool
	NoLoader bool
	Shape    string
	Dangling string // description of the deliberately dangling reference, if any
	NRes     int
}

// URoute leads from the root instance to the value validated by one $ref under test.
type URoute struct {
	Path []string // property names
	Ref  string   // the reference string as written
	Form string   // syntactic form
	Site string   // where the reference sits
}

func (rt URoute) Wrap(v any) any {
	for i := len(rt.Path) - 1; i >= 0; i-- {
		v = map[string]any{rt.Path[i]: v}
	}
	return v
}

type ures struct {
	doc        *udoc
	uri        string // absolute URI of the resource ("" possible for an unidentified root with empty base)
	node       map[string]any
	route      []string // property path from the universe root to this container (nil if unreachable structurally)
	reach      bool
	ptr        string // JSON pointer of this resource root from its document root
	underProps bool
	key        string
	isRoot     bool
	nmarker    string
	leaves     []*uleaf
	embedded   []*ures
}

type uleaf struct {
	res    *ures
	key    string // key under $defs of its resource
	anchor string
	marker string
}

type udoc struct {
	retrieval string // retrieval URI ("" for a root with empty base)
	root      *ures
	all       []*ures
	opaque    bool
}

type unigen struct {
	r      *rand.Rand
	d7     bool
	nT, nN int
	u      *Universe
	docs   []*udoc
	nref   int
}

func (g *unigen) defsKW() string {
	if g.d7 {
		return "definitions"
	}
	return "$defs"
}

// 2020-12 $anchor: [A-Za-z_][-A-Za-z0-9._]* (a leading underscore is allowed, ":" is not)
var anchorNames = []string{"t", "t", "u", "A1", "x-y", "_x", "_", "a.b", "x_y", "_9-.z"}

// d7AnchorNames: draft-07 plain names may also contain ':' and '.' ([A-Za-z][-A-Za-z0-9_:.]*); 2020-12 $anchor may not hold ':'.
var d7AnchorNames = []string{"t", "u", "A1", "x-y", "net:port", "a.b", "x_y", "n:", "v1.2-rc_3:x"}
var odd = []string{"a/b", "~", "a b", "%25", "é", "0", "-", "", "a+b", "c++", "a&b=c", "x;y", "q?r", "\ufffd", "x\ufffd", "\U0001F600"}

// NewUniverse generates a topology for C03.
func NewUniverse(r *rand.Rand, d7 bool) *Universe {
	g := &unigen{r: r, d7: d7, u: &Universe{D7: d7, Docs: map[string]string{}}}
	u := g.u
	// configuration
	absBase := r.IntN(3) > 0
	if absBase {
		u.BaseURI = Pick(r, []string{"http://h/d/root.json", "http://h/root.json", "https://h.example/a/b/root.json"})
		if r.IntN(8) == 0 {
			// a base with a query - also an EMPTY one ("...?"), which RFC 3986 keeps apart from no query at all and which a
			// fragment-only reference inherits (5.2.2)
			u.BaseURI = Pick(r, []string{"http://h/d/root.json?", "http://h/root.json?v=1", "http://h/d/root.json?a=b&c=%2F"})
		}
	}
	nd := []int{0, 1, 1, 2, 2, 3}[r.IntN(6)]
	if absBase && r.IntN(40) == 0 {
		// size stress: more loader documents in one Resolve call than any table sized for "a few" holds
		nd = Pick(r, []int{15, 16, 17, 31, 32, 33, 34, 63, 64, 65, 66, 70, 130})
	}
	// root document
	rootID := ""
	switch {
	case !absBase:
		rootID = Pick(r, []string{"http://h/d/root.json", "http://h/x/main.json", "urn:example:root"})
		if nd == 0 && r.IntN(3) == 0 {
			rootID = "" // no base at all: only fragment references
		}
	case r.IntN(2) == 0:
		rootID = Pick(r, []string{"x/a.json", "http://h2/z/a.json", "../up.json", "./s.json", "a.json"})
	}
	rootDoc := g.newDoc(u.BaseURI, rootID, true)
	g.docs = append(g.docs, rootDoc)
	if strings.HasPrefix(rootDoc.root.uri, "urn:") || rootDoc.root.uri == "" {
		nd = 0 // opaque or absent base: no relative/remote machinery (undefined by RFC 3986 / documented restriction)
	}
	for j := 1; j <= nd; j++ {
		ret := Pick(r, []string{"http://h/d/", "http://h/d/sub/", "http://other/", "http://h/"}) + fmt.Sprintf("r%d.json", j)
		if j >= 2 && r.IntN(4) == 0 {
			// the previous document's retrieval URI in another letter case: paths are case-sensitive
			// (RFC 3986 6.2.2.1), so this is a different document (round 11, C03-11)
			prev := g.docs[j-1].retrieval
			if k := strings.LastIndex(prev, "/r"); k >= 0 {
				ret = prev[:k] + "/R" + prev[k+2:]
			}
		}
		id := ""
		if r.IntN(3) == 0 {
			id = Pick(r, []string{fmt.Sprintf("http://canon/c%d.json", j), fmt.Sprintf("c%d.json", j), fmt.Sprintf("../c%d.json", j)})
		}
		g.docs = append(g.docs, g.newDoc(ret, id, false))
	}
	// route edges between documents: every loader document gets an incoming $ref route from an earlier one
	for j := 1; j < len(g.docs); j++ {
		from := g.docs[r.IntN(j)]
		g.docEdge(from, g.docs[j], fmt.Sprintf("d%d", j))
	}
	// extra edges: diamonds and cycles (back edges)
	for k := r.IntN(3); k > 0 && len(g.docs) > 1; k-- {
		a, b := g.docs[r.IntN(len(g.docs))], g.docs[1+r.IntN(len(g.docs)-1)]
		if a != b {
			g.docEdge(a, b, fmt.Sprintf("x%d", k))
		}
	}
	g.computeRoutes()
	// references under test
	nrefs := 3 + r.IntN(5)
	for i := 0; i < nrefs; i++ {
		g.addRef()
	}
	// faults
	switch r.IntN(12) {
	case 0:
		g.addDangling()
	case 1:
		if len(g.docs) > 1 {
			u.LoadErr = map[string]bool{}
			d := g.docs[1+r.IntN(len(g.docs)-1)]
			u.LoadErr[d.retrieval] = true
			u.Shape += "|fault"
		}
	case 2:
		u.LoadErr = map[string]bool{"http://h/d/unneeded.json": true} // a fault nobody asks for must have no effect
	case 3:
		if len(g.docs) > 1 {
			u.NoLoader = true
			u.Shape += "|noloader"
		}
	}
	// serialise
	u.Root = Text(rootDoc.root.node)
	for _, d := range g.docs[1:] {
		text := Text(d.root.node)
		u.Docs[d.retrieval] = text
		if d.root.uri != d.retrieval {
			u.Docs[d.root.uri] = text // alias: the loader also serves the document under its canonical id
		}
	}
	for _, d := range g.docs {
		u.NRes += len(d.all)
	}
	for k := 0; k < g.nT; k++ {
		u.Markers = append(u.Markers, fmt.Sprintf("T%d", k))
	}
	for k := 0; k < g.nN; k++ {
		u.Markers = append(u.Markers, fmt.Sprintf("N%d", k))
	}
	u.Shape = fmt.Sprintf("docs%d|res%d|base=%v|rootid=%s", len(g.docs), u.NRes, absBase, idKind(rootID)) + u.Shape
	return u
}

func idKind(id string) string {
	switch {
	case id == "":
		return "none"
	case strings.HasPrefix(id, "urn:"):
		return "urn"
	case strings.Contains(id, "://"):
		return "abs"
	case strings.HasPrefix(id, "."):
		return "dot"
	}
	return "rel"
}

func resolveRef(base, ref string) string {
	if base == "" {
		return ref
	}
	b, err := url.Parse(base)
	if err != nil {
		return ref
	}
	rf, err := url.Parse(ref)
	if err != nil {
		return ref
	}
	return b.ResolveReference(rf).String()
}

func (g *unigen) newContainer(d *udoc, uri, idSpelling string) *ures {
	res := &ures{doc: d, uri: uri, node: map[string]any{}}
	res.nmarker = fmt.Sprintf("N%d", g.nN)
	g.nN++
	res.node["not"] = map[string]any{"const": res.nmarker}
	if idSpelling != "" {
		if !strings.HasPrefix(idSpelling, "urn:") && g.r.IntN(6) == 0 {
			idSpelling += "#" // an empty fragment is allowed in $id (and recommended by draft-07 for roots): still a base URI, not an anchor
		}
		res.node["$id"] = idSpelling
	}
	// leaves: marked targets under $defs, some with anchors (same names in different resources = decoys)
	defs := map[string]any{}
	used := map[string]bool{}
	for k := 1 + g.r.IntN(3); k > 0; k-- {
		lf := &uleaf{res: res, marker: fmt.Sprintf("T%d", g.nT)}
		g.nT++
		lf.key = fmt.Sprintf("t%d", len(res.leaves))
		if g.r.IntN(5) == 0 {
			lf.key = Pick(g.r, odd)
			if _, dup := defs[lf.key]; dup {
				lf.key = fmt.Sprintf("t%d", len(res.leaves))
			}
		}
		n := map[string]any{"const": lf.marker}
		if g.r.IntN(2) == 0 {
			a := Pick(g.r, anchorNames)
			if g.d7 {
				a = Pick(g.r, d7AnchorNames)
			}
			if !used[a] && !(g.d7 && !isD7Anchor(a)) {
				used[a] = true
				lf.anchor = a
				if g.d7 {
					n["$id"] = "#" + a
				} else {
					n["$anchor"] = a
				}
			}
		}
		defs[lf.key] = n
		res.leaves = append(res.leaves, lf)
	}
	if len(res.leaves) > 0 && g.r.IntN(3) == 0 {
		// an ALIAS leaf: a reference to the first leaf plus one sibling keyword. Under 2020-12 the sibling counts (here it rejects
		// every marker), under draft-07 it is ignored; a reference TO the alias must not be bound past it
		first := res.leaves[0]
		lf := &uleaf{res: res, marker: fmt.Sprintf("T%d", g.nT), key: fmt.Sprintf("alias%d", len(res.leaves))}
		g.nT++
		defs[lf.key] = map[string]any{"$ref": "#/" + ptrEsc(g.defsKW()) + "/" + fragEsc(ptrEsc(first.key)), "type": Pick(g.r, []string{"integer", "null", "array"})}
		res.leaves = append(res.leaves, lf)
	}
	res.node[g.defsKW()] = defs
	d.all = append(d.all, res)
	return res
}

func isD7Anchor(a string) bool { return a != "" }

func (g *unigen) newDoc(retrieval, id string, isRoot bool) *udoc {
	d := &udoc{retrieval: retrieval}
	uri := retrieval
	if id != "" {
		uri = resolveRef(retrieval, id)
	}
	d.root = g.newContainer(d, uri, id)
	d.root.isRoot = true
	d.opaque = strings.HasPrefix(uri, "urn:")
	if g.d7 && isRoot {
		d.root.node["$schema"] = Schema7URI
	}
	// embedded resources (under properties: structurally reachable; under $defs: only by reference)
	if uri != "" && !d.opaque {
		for k := g.r.IntN(3); k > 0; k-- {
			parent := Pick(g.r, d.all)
			idSp := Pick(g.r, []string{"e%d.json", "sub/e%d.json", "http://emb/e%d.json", "./e%d.json", "../e%d.json"})
			idSp = fmt.Sprintf(idSp, g.nN) // globally unique: two documents claiming one embedded URI is undefined behaviour
			e := g.newContainer(d, resolveRef(parent.uri, idSp), idSp)
			key := fmt.Sprintf("e%d", len(d.all))
			if g.r.IntN(4) == 0 {
				defs := parent.node[g.defsKW()].(map[string]any)
				defs[key] = e.node
				e.ptr = parent.ptr + "/" + ptrEsc(g.defsKW()) + "/" + key
			} else {
				props, _ := parent.node["properties"].(map[string]any)
				if props == nil {
					props = map[string]any{}
					parent.node["properties"] = props
				}
				props[key] = e.node
				e.ptr = parent.ptr + "/properties/" + key
				e.underProps = true
				e.key = key
			}
			parent.embedded = append(parent.embedded, e)
			if strings.HasPrefix(e.uri, "http") && g.r.IntN(4) == 0 {
				// a NEAR-VARIANT decoy: an unreferenced $defs entry whose $id differs from this resource's URI only by a trailing
				// slash, an empty path segment, a query or the case of the path - different URIs (RFC 3986 6.2), never a target
				v := e.uri
				switch g.r.IntN(4) {
				case 0:
					v += "/"
				case 1:
					if i := strings.LastIndex(v, "/"); i > len("http://") {
						v = v[:i] + "/" + v[i:]
					} else {
						v += "/"
					}
				case 2:
					v += "?v=1"
				default:
					if i := strings.LastIndex(v, "/"); i >= 0 {
						v = v[:i] + strings.ToUpper(v[i:])
					}
				}
				marker := fmt.Sprintf("T%d", g.nT)
				g.nT++
				defs := d.root.node[g.defsKW()].(map[string]any)
				defs[Pick(g.r, []string{"zz-near", "aa-near", "near"})+fmt.Sprint(g.nT)] = map[string]any{"$id": v, "const": marker}
			}
		}
	}
	return d
}

func ptrEsc(s string) string {
	return strings.ReplaceAll(strings.ReplaceAll(s, "~", "~0"), "/", "~1")
}

func fragEsc(ptr string) string {
	// percent-encode what a URI fragment cannot carry literally
	var sb strings.Builder
	for _, b := range []byte(ptr) {
		switch {
		case b == '%' || b == ' ' || b == '"' || b == '#' || b == '\\' || b == '^' || b == '`' || b == '{' || b == '}' || b == '|' || b == '<' || b == '>' || b >= 0x80 || b < 0x20:
			fmt.Fprintf(&sb, "%%%02X", b)
		default:
			sb.WriteByte(b)
		}
	}
	return sb.String()
}

func (g *unigen) props(res *ures) map[string]any {
	props, _ := res.node["properties"].(map[string]any)
	if props == nil {
		props = map[string]any{}
		res.node["properties"] = props
	}
	return props
}

// docEdge adds a route reference from a reachable container of document a to the root of document b.
func (g *unigen) docEdge(a, b *udoc, key string) {
	site := a.root
	// absolute retrieval URI: the most basic form (the forms under test are exercised by addRef)
	g.props(site)[key] = map[string]any{"$ref": b.retrieval}
	b.root.reach = true
	if b.root.route == nil && (a.root.route != nil || a == g.docs[0]) && b != g.docs[0] {
		b.root.route = append(append([]string{}, a.root.route...), key)
	}
}

func (g *unigen) computeRoutes() {
	// the root document's root is the empty route
	g.docs[0].root.reach = true
	g.docs[0].root.route = []string{}
	// embedded resources under "properties" extend their parent's route
	for _, d := range g.docs {
		var walk func(p *ures)
		walk = func(p *ures) {
			for _, e := range p.embedded {
				if e.underProps && p.route != nil {
					e.route = append(append([]string{}, p.route...), e.key)
					e.reach = true
				}
				walk(e)
			}
		}
		walk(d.root)
	}
}

func lastSeg(p string) string {
	i := strings.LastIndexByte(p, '/')
	return p[i+1:]
}

// relativize returns a relative spelling of target against base, or "" if none is safe.
func relativize(r *rand.Rand, base, target string) string {
	b, err1 := url.Parse(base)
	t, err2 := url.Parse(target)
	if err1 != nil || err2 != nil || b.Scheme != t.Scheme || b.Host != t.Host || b.Opaque != "" || t.Opaque != "" || b.Path == "" || t.Path == "" {
		return ""
	}
	switch r.IntN(3) {
	case 0:
		return t.Path // absolute-path reference
	default:
		bd, td := path.Dir(b.Path), path.Dir(t.Path)
		var rel string
		switch {
		case bd == td:
			rel = path.Base(t.Path)
		case strings.HasPrefix(td+"/", strings.TrimSuffix(bd, "/")+"/"):
			rel = strings.TrimPrefix(t.Path, strings.TrimSuffix(bd, "/")+"/")
		default:
			// climb to the root
			n := strings.Count(strings.Trim(bd, "/"), "/")
			if strings.Trim(bd, "/") != "" {
				n++
			}
			rel = strings.Repeat("../", n) + strings.TrimPrefix(t.Path, "/")
		}
		if r.IntN(3) == 0 && !strings.HasPrefix(rel, "../") {
			rel = "./" + rel
		}
		return rel
	}
}

type utarget struct {
	res  *ures
	leaf *uleaf // nil: the container itself
}

func (g *unigen) reachableSites() []*ures {
	var out []*ures
	for _, d := range g.docs {
		for _, r := range d.all {
			if r.route != nil {
				out = append(out, r)
			}
		}
	}
	return out
}

func (g *unigen) addRef() {
	r := g.r
	sites := g.reachableSites()
	site := Pick(r, sites)
	// target: same document (any resource) or another document (root resource + fragment only)
	var cands []utarget
	for _, d := range g.docs {
		for _, res := range d.all {
			if d != site.doc && !res.isRoot {
				continue
			}
			cands = append(cands, utarget{res, nil})
			for _, lf := range res.leaves {
				cands = append(cands, utarget{res, lf})
			}
		}
		// pointer through embedded resources of another document: addressed from the document root
		if d != site.doc {
			for _, res := range d.all {
				if !res.isRoot {
					for _, lf := range res.leaves {
						cands = append(cands, utarget{res, lf})
					}
				}
			}
		}
	}
	tg := Pick(r, cands)
	ref, form := g.spell(site, tg)
	if ref == "" && form == "" {
		return
	}
	key := fmt.Sprintf("p%d", g.nref)
	g.nref++
	node := map[string]any{"$ref": ref}
	if !g.d7 && r.IntN(5) == 0 {
		// both reference keywords in ONE schema object: $dynamicRef (to a target without a dynamic anchor: it behaves like $ref)
		// and $ref are two independent applicators, both must hold
		if ref2, form2 := g.spell(site, Pick(r, cands)); ref2 != "" || form2 != "" {
			node["$dynamicRef"] = ref2
			form += "+dyn:" + form2
		}
	}
	g.props(site)[key] = node
	g.u.Routes = append(g.u.Routes, URoute{Path: append(append([]string{}, site.route...), key), Ref: ref, Form: form, Site: site.uri})
}

// spell chooses a syntactic form for a reference from site to target.
func (g *unigen) spell(site *ures, tg utarget) (string, string) {
	r := g.r
	res := tg.res
	sameRes := res == site
	// fragment
	var frags []string // candidate (fragment, form)
	var forms []string
	addr := res // resource whose URI is used
	if tg.leaf == nil {
		frags, forms = append(frags, ""), append(forms, "root")
	} else {
		p := "/" + ptrEsc(g.defsKW()) + "/" + ptrEsc(tg.leaf.key)
		frags, forms = append(frags, fragEsc(p)), append(forms, "ptr")
		if tg.leaf.anchor != "" {
			frags, forms = append(frags, tg.leaf.anchor), append(forms, "anchor")
			frags, forms = append(frags, tg.leaf.anchor), append(forms, "anchor")
		}
	}
	// cross-document, non-root resource: only a pointer from the document root
	if res.doc != site.doc && !res.isRoot {
		addr = res.doc.root
		p := res.ptr + "/" + ptrEsc(g.defsKW()) + "/" + ptrEsc(tg.leaf.key)
		frags, forms = []string{fragEsc(p)}, []string{"ptr-through-embedded"}
	} else if !res.isRoot && r.IntN(4) == 0 {
		// same document: address through the document root with a long pointer
		addr = res.doc.root
		p := res.ptr
		f := "ptr-to-embedded-root"
		if tg.leaf != nil {
			p += "/" + ptrEsc(g.defsKW()) + "/" + ptrEsc(tg.leaf.key)
			f = "ptr-through-embedded"
		}
		frags, forms = []string{fragEsc(p)}, []string{f}
		sameRes = addr == site
	}
	i := r.IntN(len(frags))
	frag, form := frags[i], forms[i]
	hash := ""
	if frag != "" {
		hash = "#" + frag
	}
	if sameRes && r.IntN(3) > 0 {
		if hash == "" {
			hash = "#"
		}
		return hash, "frag-only:" + form
	}
	if addr.uri == "" {
		if sameRes || addr == site {
			if hash == "" {
				hash = "#"
			}
			return hash, "frag-only:" + form
		}
		return "", ""
	}
	// URI part: absolute, relative, or alias by retrieval URI
	uri := addr.uri
	uform := "abs"
	if addr.isRoot && addr.doc.retrieval != "" && addr.doc.retrieval != addr.uri && r.IntN(3) == 0 {
		uri = addr.doc.retrieval
		uform = "retrieval-alias"
	}
	if site.uri != "" && !strings.HasPrefix(site.uri, "urn:") && r.IntN(2) == 0 {
		if rel := relativize(r, site.uri, uri); rel != "" && resolveRef(site.uri, rel) == uri {
			uri = rel
			uform = "rel"
			if strings.HasPrefix(rel, "../") {
				uform = "rel-dotdot"
			} else if strings.HasPrefix(rel, "./") {
				uform = "rel-dot"
			} else if strings.HasPrefix(rel, "/") {
				uform = "abs-path"
			}
		}
	}
	if uform == "abs" || uform == "retrieval-alias" {
		if d := dotty(r, uri); d != uri && r.IntN(4) == 0 {
			uri = d
			uform += "-dotsegments"
		}
	}
	return uri + hash, uform + ":" + form
}

// dotty inserts dot segments into the path of an absolute hierarchical URI without changing what it denotes
// (RFC 3986 5.2.4 removes them, also from absolute references).
func dotty(r *rand.Rand, uri string) string {
	u, err := url.Parse(uri)
	if err != nil || u.Opaque != "" || u.Host == "" || !strings.HasPrefix(u.Path, "/") {
		return uri
	}
	i := strings.LastIndexByte(u.Path, '/')
	dir, file := u.Path[:i], u.Path[i+1:]
	switch r.IntN(4) {
	case 0:
		u.Path = dir + "/./" + file
	case 1:
		u.Path = dir + "/zz/../" + file
	case 2:
		u.Path = "/./" + strings.TrimPrefix(dir, "/") + "/" + file
		if dir == "" {
			u.Path = "/./" + file
		}
	default:
		u.Path = dir + "/a/b/../../" + file
	}
	out := u.Scheme + "://" + u.Host + u.Path
	if resolveRef("", out) == "" {
		return uri
	}
	// self-check with net/url: must denote the same URI
	if b, err := url.Parse(out); err != nil || b.ResolveReference(&url.URL{}).String() != uri {
		return uri
	}
	return out
}

func (g *unigen) addDangling() {
	r := g.r
	sites := g.reachableSites()
	site := Pick(r, sites)
	var ref string
	switch r.IntN(5) {
	case 0:
		ref = "#nope"
	case 1:
		ref = "#/" + g.defsKW() + "/nope"
	case 2:
		if site.uri == "" || strings.HasPrefix(site.uri, "urn:") {
			ref = "#/properties/nope"
		} else {
			ref = "http://h/d/missing.json"
		}
	case 3:
		ref = "#/" + g.defsKW() + "/t0/const" // ends on a non-schema position
	default:
		ref = "#/properties"
	}
	g.props(site)[fmt.Sprintf("z%d", g.nref)] = map[string]any{"$ref": ref}
	g.u.Dangling = ref
	g.u.Shape += "|dangling"
}

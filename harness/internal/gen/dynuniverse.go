package gen

import (
	"fmt"
	"math/rand/v2"
	"strings"
)

// DynUniverse is a dynamic-scope topology for C06: resources with or without a $dynamicAnchor / $anchor
// of one name, entered in a chosen order through $ref / $dynamicRef / applicator hops, ending in a $dynamicRef.
type DynUniverse struct {
	BaseURI string
	Root    string
	Docs    map[string]string
	Markers []string
	Route   []string // instance route: "p:<name>" property hop, "i" item hop
	Shape   string
	Final   string // the final $dynamicRef as written
	NDyn    int    // resources on the chain that declare the dynamic anchor
}

func (u *DynUniverse) Wrap(v any) any {
	for i := len(u.Route) - 1; i >= 0; i-- {
		if name, ok := strings.CutPrefix(u.Route[i], "p:"); ok {
			v = map[string]any{name: v}
		} else {
			v = []any{v}
		}
	}
	return v
}

// NewDynUniverse generates one topology.
func NewDynUniverse(r *rand.Rand) *DynUniverse {
	u := &DynUniverse{BaseURI: "http://h/root.json", Docs: map[string]string{}}
	n := 1 + r.IntN(5) // resources incl. the root
	remote := n > 1 && r.IntN(5) < 2
	uri := func(i int) string {
		if i == 0 {
			return "http://h/root.json"
		}
		return fmt.Sprintf("http://h/r%d.json", i)
	}
	// candidates
	kinds := make([]string, n) // "dyn", "plain", "none"
	res := make([]map[string]any, n)
	for i := 0; i < n; i++ {
		kinds[i] = Pick(r, []string{"dyn", "dyn", "dyn", "plain", "none"})
		res[i] = map[string]any{"$defs": map[string]any{}}
		if i > 0 {
			if remote {
				// a loader document: retrieval URI is its identity (sometimes it also says so)
				if r.IntN(2) == 0 {
					res[i]["$id"] = uri(i)
				}
			} else {
				res[i]["$id"] = Pick(r, []string{fmt.Sprintf("r%d.json", i), uri(i)})
			}
		} else if r.IntN(2) == 0 {
			res[i]["$id"] = uri(0)
		}
		defs := res[i]["$defs"].(map[string]any)
		mk := fmt.Sprintf("T%d", i)
		u.Markers = append(u.Markers, mk)
		switch kinds[i] {
		case "dyn":
			defs["cand"] = map[string]any{"$dynamicAnchor": "node", "const": mk}
		case "plain":
			defs["cand"] = map[string]any{"$anchor": "node", "const": mk}
		default:
			defs["cand"] = map[string]any{"const": mk} // reachable by pointer only
		}
		// decoy: a dynamic anchor of another name
		if r.IntN(4) == 0 {
			defs["other"] = map[string]any{"$dynamicAnchor": "other", "const": "X"}
		}
	}
	u.Markers = append(u.Markers, "X")
	// chain: root first, then a random order of a random subset of the others
	order := r.Perm(n - 1)
	clen := 0
	if n > 1 {
		clen = 1 + r.IntN(n-1)
	}
	chain := []int{0}
	for _, k := range order[:clen] {
		chain = append(chain, k+1)
	}
	// hops
	var shape []string
	for ci := 0; ci < len(chain); ci++ {
		cur := res[chain[ci]]
		var hop map[string]any
		if ci == len(chain)-1 {
			// final $dynamicRef
			last := chain[ci]
			var forms []string
			if kinds[last] != "none" {
				forms = append(forms, "#node", "#node")
			}
			for j := 0; j < n; j++ {
				if kinds[j] != "none" && (j == 0 || !remote || true) {
					forms = append(forms, uri(j)+"#node")
					if j != last {
						forms = append(forms, fmt.Sprintf("%s#node", relName(j)))
					}
				}
			}
			forms = append(forms, "#/$defs/cand", uri(r.IntN(n))+"#/$defs/cand")
			u.Final = Pick(r, forms)
			hop = map[string]any{"$dynamicRef": u.Final}
			shape = append(shape, "final:"+formKind(u.Final))
		} else {
			next := chain[ci+1]
			target := Pick(r, []string{uri(next), relName(next)}) + "#/$defs/entry"
			kw := "$ref"
			if r.IntN(4) == 0 {
				kw = "$dynamicRef" // pointer form: behaves like $ref
			}
			hop = map[string]any{kw: target}
			shape = append(shape, kw)
		}
		// wrap the hop
		var entry map[string]any
		switch r.IntN(6) {
		case 0:
			entry = map[string]any{"allOf": []any{hop}}
			shape = append(shape, "allOf")
		case 1:
			entry = map[string]any{"anyOf": []any{false, hop}}
			shape = append(shape, "anyOf")
		case 2:
			entry = map[string]any{"properties": map[string]any{"h": hop}}
			u.Route = append(u.Route, "p:h")
			shape = append(shape, "properties")
		case 3:
			entry = map[string]any{"items": hop}
			u.Route = append(u.Route, "i")
			shape = append(shape, "items")
		default:
			entry = hop
		}
		if ci == 0 {
			for k, v := range entry {
				cur[k] = v
			}
		} else {
			cur["$defs"].(map[string]any)["entry"] = entry
		}
		if kinds[chain[ci]] == "dyn" {
			u.NDyn++
		}
	}
	// resources off the chain still need an "entry" so that pointer refs to it never dangle
	for i := 1; i < n; i++ {
		defs := res[i]["$defs"].(map[string]any)
		if _, ok := defs["entry"]; !ok {
			defs["entry"] = true
		}
	}
	// assemble
	if remote {
		for i := 1; i < n; i++ {
			u.Docs[uri(i)] = Text(res[i])
		}
	} else {
		rootDefs := res[0]["$defs"].(map[string]any)
		for i := 1; i < n; i++ {
			// nest some resources inside others
			host := rootDefs
			if i > 1 && r.IntN(3) == 0 && !isAbsID(res[i-1]) {
				host = res[i-1]["$defs"].(map[string]any)
				// relative $id resolves against the host's base: keep URIs stable by using absolute ids when nested
				res[i]["$id"] = uri(i)
			}
			host[fmt.Sprintf("r%d", i)] = res[i]
		}
	}
	u.Root = Text(res[0])
	u.Shape = fmt.Sprintf("n%d|remote=%v|kinds=%s|chain=%v|%s", n, remote, strings.Join(kinds, ""), chain, strings.Join(shape, ">"))
	return u
}

func isAbsID(m map[string]any) bool {
	id, _ := m["$id"].(string)
	return strings.Contains(id, "://")
}

func relName(i int) string {
	if i == 0 {
		return "root.json"
	}
	return fmt.Sprintf("r%d.json", i)
}

func formKind(ref string) string {
	switch {
	case strings.HasPrefix(ref, "#/"):
		return "ptr"
	case strings.HasPrefix(ref, "#"):
		return "frag"
	case strings.Contains(ref, "#/"):
		return "res-ptr"
	case strings.HasPrefix(ref, "http"):
		return "abs-frag"
	}
	return "rel-frag"
}

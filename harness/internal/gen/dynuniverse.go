package gen

import (
	"encoding/json"
	"fmt"
	"math/rand/v2"
	"slices"
	"strings"
)

// DynUniverse is a dynamic-scope topology for C06: resources with or without a $dynamicAnchor / $anchor
// of one name, entered in a chosen order through $ref / $dynamicRef / applicator hops, ending in a $dynamicRef.
type DynUniverse struct {
	BaseURI string
	Root    string
	Docs    map[string]string
	Markers []string
	Routes  [][]string // one instance route per entry chain: "p:<name>" property hop, "i" item hop
	Shape   string
	Final   string // the final $dynamicRef as written
	NDyn    int    // resources on the chains that declare the dynamic anchor
}

func wrapRoute(route []string, v any) any {
	for i := len(route) - 1; i >= 0; i-- {
		if name, ok := strings.CutPrefix(route[i], "p:"); ok {
			v = map[string]any{name: v}
		} else if route[i] == "k" {
			v = map[string]any{fmt.Sprint(v): true} // the marker travels on as a property NAME
		} else {
			v = []any{v}
		}
	}
	return v
}

// Wrap sends one marker per chain down its route. With two chains (a fork) the root holds the branches
// under the properties "a" and "b" and the result is one object carrying both.
func (u *DynUniverse) Wrap(markers ...any) any {
	if len(u.Routes) == 1 {
		return wrapRoute(u.Routes[0], markers[0])
	}
	out := map[string]any{}
	for i, rt := range u.Routes {
		m := markers[i%len(markers)]
		w := wrapRoute(rt, m).(map[string]any)
		for k, v := range w {
			out[k] = v
		}
	}
	return out
}

// NewDynUniverse generates one topology. 40% are FORKS: the root enters the resource holding the final
// $dynamicRef along two different chains (under properties a / b), so the same $dynamicRef is evaluated
// under two different dynamic scopes within one Validate call.
func NewDynUniverse(r *rand.Rand) *DynUniverse {
	u := &DynUniverse{BaseURI: "http://h/root.json", Docs: map[string]string{}}
	n := 1 + r.IntN(5) // resources incl. the root
	if r.IntN(40) == 0 {
		n = Pick(r, []int{9, 17, 33, 34, 65, 66, 70}) // size stress: long chains, deep dynamic scopes
	}
	flood := 0
	if r.IntN(15) == 0 {
		flood = Pick(r, []int{7, 8, 15, 16, 31, 32, 33, 62, 63, 64, 65, 66, 70, 130}) // many unrelated dynamic anchor names
	}
	remote := n > 1 && r.IntN(5) < 2
	uri := func(i int) string {
		if i == 0 {
			return "http://h/root.json"
		}
		return fmt.Sprintf("http://h/r%d.json", i)
	}
	// candidates
	kinds := make([]string, n) // "dyn", "plain", "none"
	res := make([]map[string]any, n)
	for i := 0; i < n; i++ {
		kinds[i] = Pick(r, []string{"dyn", "dyn", "dyn", "plain", "none"})
		res[i] = map[string]any{"$defs": map[string]any{}}
		if i > 0 {
			if remote {
				if r.IntN(2) == 0 {
					res[i]["$id"] = uri(i)
				}
			} else {
				res[i]["$id"] = Pick(r, []string{fmt.Sprintf("r%d.json", i), uri(i)})
			}
		} else if r.IntN(2) == 0 {
			res[i]["$id"] = uri(0)
		}
		defs := res[i]["$defs"].(map[string]any)
		mk := fmt.Sprintf("T%d", i)
		u.Markers = append(u.Markers, mk)
		switch kinds[i] {
		case "dyn":
			defs["cand"] = map[string]any{"$dynamicAnchor": "node", "const": mk}
			if r.IntN(4) == 0 {
				defs["cand"].(map[string]any)["$anchor"] = "plain-alias" // a second, plain name for the same schema object
			}
		case "plain":
			defs["cand"] = map[string]any{"$anchor": "node", "const": mk}
			if i > 0 && r.IntN(3) == 0 {
				// the same object ALSO declares a dynamic anchor - of another name: a $dynamicRef written with the plain name
				// stays an ordinary reference, whatever the dynamic scope holds under that other name
				defs["cand"].(map[string]any)["$dynamicAnchor"] = "node2"
				// ... and the OUTERMOST resource declares that other name too (never wanted by anybody)
				res[0]["$defs"].(map[string]any)["n2"] = map[string]any{"$dynamicAnchor": "node2", "const": "X"}
			}
		default:
			defs["cand"] = map[string]any{"const": mk} // reachable by pointer only
		}
		if r.IntN(4) == 0 {
			defs["other"] = map[string]any{"$dynamicAnchor": "other", "const": "X"}
		}
	}
	u.Markers = append(u.Markers, "X")
	if flood > 0 {
		// unrelated $dynamicAnchor names (never referenced): in the root (sorted before and after "cand") or in a later resource
		host := res[0]["$defs"].(map[string]any)
		if r.IntN(3) == 0 {
			host = res[r.IntN(n)]["$defs"].(map[string]any)
		}
		pre := Pick(r, []string{"a", "z"})
		for i := 0; i < flood; i++ {
			host[fmt.Sprintf("%s%03d", pre, i)] = map[string]any{"$dynamicAnchor": fmt.Sprintf("f%d", i), "const": "F"}
		}
	}
	nchains := 1
	if n >= 2 && r.IntN(10) < 4 {
		nchains = 2
	}
	// the resource holding the final $dynamicRef
	last := 0
	if n > 1 {
		last = 1 + r.IntN(n-1)
	}
	if nchains == 1 && n > 1 && r.IntN(4) == 0 {
		last = 0
	}
	if nchains == 2 && last == 0 {
		last = 1
	}
	// the final $dynamicRef, stored once under $defs/fin of the last resource (or in the root itself)
	var forms []string
	if kinds[last] != "none" {
		forms = append(forms, "#node", "#node")
	}
	for j := 0; j < n; j++ {
		if kinds[j] != "none" {
			forms = append(forms, uri(j)+"#node")
			if j != last {
				forms = append(forms, relName(j)+"#node")
			}
		}
	}
	forms = append(forms, "#/$defs/cand", uri(r.IntN(n))+"#/$defs/cand")
	u.Final = Pick(r, forms)
	if strings.HasSuffix(u.Final, "#node") && r.IntN(5) == 0 {
		// the same reference with unreserved characters of the fragment percent-encoded (RFC 3986 6.2.2.2: equivalent)
		u.Final = strings.TrimSuffix(u.Final, "node") + Pick(r, []string{"%6Eode", "nod%65", "%6E%6F%64%65", "n%6fde"})
	}
	fin := map[string]any{"$dynamicRef": u.Final}
	var shape []string
	// the final $dynamicRef judges property NAMES: with a fork the same name is then judged by the same
	// propertyNames subschema under two dynamic scopes within one call
	nameFin := r.IntN(5) == 0
	if nameFin {
		fin = map[string]any{"propertyNames": fin}
		shape = append(shape, "propertyNames")
	}
	// decoy: a further resource that declares the dynamic anchor and accepts only its own marker. Hops may first send the
	// instance INTO the decoy through a keyword that carries on after a failed subschema (anyOf, not, if, contains): the
	// decoy is entered and left again before the real path continues, and must leave nothing in the dynamic scope.
	decoy := !remote && r.IntN(3) == 0
	decoyRef := map[string]any{"$ref": "http://h/decoy.json"}
	wrapHop := func(hop map[string]any, route *[]string) map[string]any {
		if decoy && r.IntN(2) == 0 {
			switch r.IntN(5) {
			case 0:
				shape = append(shape, "decoy-anyOf")
				return map[string]any{"anyOf": []any{decoyRef, hop}}
			case 1:
				shape = append(shape, "decoy-not")
				return map[string]any{"not": decoyRef, "allOf": []any{hop}}
			case 2:
				shape = append(shape, "decoy-if")
				return map[string]any{"if": decoyRef, "then": hop, "else": hop}
			case 3:
				*route = append(*route, "i")
				shape = append(shape, "decoy-contains-unevaluatedItems")
				return map[string]any{"contains": decoyRef, "minContains": json.Number("0"), "unevaluatedItems": hop}
			default:
				*route = append(*route, "i")
				shape = append(shape, "decoy-contains-items")
				return map[string]any{"contains": decoyRef, "minContains": json.Number("0"), "items": hop}
			}
		}
		switch r.IntN(6) {
		case 0:
			shape = append(shape, "allOf")
			return map[string]any{"allOf": []any{hop}}
		case 1:
			shape = append(shape, "anyOf")
			return map[string]any{"anyOf": []any{false, hop}}
		case 2:
			*route = append(*route, "p:h")
			shape = append(shape, "properties")
			return map[string]any{"properties": map[string]any{"h": hop}}
		case 3:
			*route = append(*route, "i")
			shape = append(shape, "items")
			return map[string]any{"items": hop}
		}
		return hop
	}
	onChain := map[int]bool{}
	for c := 0; c < nchains; c++ {
		suffix := string(rune('A' + c))
		var route []string
		if nchains == 2 {
			route = append(route, "p:"+strings.ToLower(suffix))
		}
		// intermediate resources: a random subset (not root, not last) in random order
		var mids []int
		for _, k := range r.Perm(n) {
			if k != 0 && k != last && r.IntN(2) == 0 {
				mids = append(mids, k)
			}
		}
		if last == 0 {
			mids = nil // the root itself holds the final $dynamicRef
		}
		chain := append([]int{0}, mids...)
		if last != 0 {
			chain = append(chain, last)
		}
		if last != 0 && r.IntN(5) == 0 {
			// RE-ENTRY: the resource holding the final $dynamicRef is entered, left for a resource not yet on the path, and
			// entered again (dynamic scope [.., C, X, C]): what X declares counts, although C was there before it
			for _, x := range r.Perm(n) {
				if x != 0 && x != last && !slices.Contains(mids, x) {
					chain = append(chain, x, last)
					shape = append(shape, "reentry")
					break
				}
			}
		}
		for _, k := range chain {
			onChain[k] = true
		}
		shape = append(shape, fmt.Sprintf("chain%s=%v", suffix, chain))
		// hops: chain[i] -> chain[i+1]; the last element holds fin
		var rootEntry map[string]any
		for ci := 0; ci < len(chain); ci++ {
			cur := res[chain[ci]]
			var hop map[string]any
			if ci == len(chain)-1 {
				if chain[ci] == last && last != 0 {
					cur["$defs"].(map[string]any)["fin"] = fin
					break // reached through the previous hop's reference to .../$defs/fin
				}
				hop = fin // single-resource universe: the root itself holds the $dynamicRef
			} else {
				next := chain[ci+1]
				entryName := "entry" + suffix
				if ci+1 == len(chain)-1 {
					entryName = "fin"
				}
				target := Pick(r, []string{uri(next), relName(next)}) + "#/$defs/" + entryName
				kw := "$ref"
				if r.IntN(4) == 0 {
					kw = "$dynamicRef" // pointer form: behaves like $ref
				}
				hop = map[string]any{kw: target}
				shape = append(shape, kw)
			}
			entry := wrapHop(hop, &route)
			if ci == 0 {
				rootEntry = entry
			} else {
				cur["$defs"].(map[string]any)["entry"+suffix] = entry
			}
		}
		if nchains == 1 {
			for k, v := range rootEntry {
				res[0][k] = v
			}
		} else {
			props, _ := res[0]["properties"].(map[string]any)
			if props == nil {
				props = map[string]any{}
				res[0]["properties"] = props
			}
			props[strings.ToLower(suffix)] = rootEntry
		}
		if nameFin {
			route = append(route, "k")
		}
		u.Routes = append(u.Routes, route)
	}
	for k := range onChain {
		if kinds[k] == "dyn" {
			u.NDyn++
		}
	}
	if decoy {
		res[0]["$defs"].(map[string]any)["decoy"] = map[string]any{"$id": "http://h/decoy.json", "$dynamicAnchor": "node", "const": "TD"}
		u.Markers = append(u.Markers, "TD")
	}
	// assemble
	if remote {
		for i := 1; i < n; i++ {
			u.Docs[uri(i)] = Text(res[i])
		}
	} else {
		rootDefs := res[0]["$defs"].(map[string]any)
		for i := 1; i < n; i++ {
			host := rootDefs
			if i > 1 && r.IntN(3) == 0 && !isAbsID(res[i-1]) {
				host = res[i-1]["$defs"].(map[string]any)
				res[i]["$id"] = uri(i)
			}
			host[fmt.Sprintf("r%d", i)] = res[i]
		}
	}
	u.Root = Text(res[0])
	kindStr := strings.Join(kinds, "")
	if n > 8 {
		kindStr = fmt.Sprintf("(%d kinds)", n)
		shape = shape[:min(len(shape), 4)]
	}
	u.Shape = fmt.Sprintf("n%d|flood=%d|remote=%v|kinds=%s|chains=%d|%s|final:%s", n, flood, remote, kindStr, nchains, strings.Join(shape, ">"), formKind(u.Final))
	return u
}

func isAbsID(m map[string]any) bool {
	id, _ := m["$id"].(string)
	return strings.Contains(id, "://")
}

func relName(i int) string {
	if i == 0 {
		return "root.json"
	}
	return fmt.Sprintf("r%d.json", i)
}

func formKind(ref string) string {
	switch {
	case strings.HasPrefix(ref, "#/"):
		return "ptr"
	case strings.HasPrefix(ref, "#"):
		return "frag"
	case strings.Contains(ref, "#/"):
		return "res-ptr"
	case strings.HasPrefix(ref, "http"):
		return "abs-frag"
	}
	return "rel-frag"
}

package gen

import (
	"encoding/json"
	"fmt"
	"math"
	"math/rand/v2"
	"reflect"

	"github.com/google/jsonschema-go/jsonschema"
)

var (
	schemaPtrT   = reflect.TypeOf((*jsonschema.Schema)(nil))
	schemaSliceT = reflect.TypeOf([]*jsonschema.Schema(nil))
	schemaMapT   = reflect.TypeOf(map[string]*jsonschema.Schema(nil))
)

// SubschemaFields lists, by the harness's own reflection over Schema's exported fields,
// every field that holds subschemas (by Go type), independent of the library's field table.
func SubschemaFields() (single, slice, maps []string) {
	t := reflect.TypeOf(jsonschema.Schema{})
	for i := 0; i < t.NumField(); i++ {
		f := t.Field(i)
		if !f.IsExported() {
			continue
		}
		switch f.Type {
		case schemaPtrT:
			single = append(single, f.Name)
		case schemaSliceT:
			slice = append(slice, f.Name)
		case schemaMapT:
			maps = append(maps, f.Name)
		}
	}
	return
}

// StructOpts controls SchemaStruct.
type StructOpts struct {
	MaxDepth int
	// Valid profile: respects the documented exclusivity rules and avoids the pinned known-finding classes
	// (empty-but-present enum/anyOf/oneOf (K3), nil DependencyStrings values (K4)).
	Valid bool
	// Hostile extras (only when !Valid): nil children, shared pointers, cycles, Type+Types, bad URIs/patterns.
	Hostile bool
	// FillAll raises the probability that every subschema-bearing field gets populated (C20).
	FillAll bool
	// Unknown collects the names of Schema fields whose Go type the generator does not know.
	Unknown map[string]bool
	// Populated counts populated subschema-bearing fields: name@depth.
	Populated map[string]bool
	// NoRefs leaves $ref/$dynamicRef/$id/$anchor empty (always resolvable).
	NoRefs bool
	// PropOrder: populate PropertyOrder.
	PropOrder bool
}

type stgen struct {
	r    *rand.Rand
	o    *StructOpts
	pool []*jsonschema.Schema // for shared pointers (hostile)
}

// SchemaStruct builds a random Schema value by reflection over the exported fields.
func SchemaStruct(r *rand.Rand, o *StructOpts) *jsonschema.Schema {
	if o.MaxDepth == 0 {
		o.MaxDepth = 3
	}
	g := &stgen{r: r, o: o}
	s := g.schema(0)
	if o.Hostile && len(g.pool) > 1 && r.IntN(4) == 0 {
		// a cycle: make some node a child of one of its descendants
		a, b := Pick(r, g.pool), Pick(r, g.pool)
		b.Not = a
	}
	return s
}

func (g *stgen) child(depth int) *jsonschema.Schema {
	if g.o.Hostile && !g.o.Valid {
		switch g.r.IntN(25) {
		case 0:
			return nil
		case 1:
			if len(g.pool) > 0 {
				return Pick(g.r, g.pool) // shared pointer
			}
		}
	}
	return g.schema(depth)
}

func (g *stgen) popProb(depth int) int { // out of 100
	if depth >= g.o.MaxDepth {
		return 0
	}
	if g.o.FillAll {
		return []int{35, 9, 4, 2}[min(depth, 3)]
	}
	return []int{14, 9, 5, 2}[min(depth, 3)]
}

func (g *stgen) schema(depth int) *jsonschema.Schema {
	r := g.r
	s := &jsonschema.Schema{}
	g.pool = append(g.pool, s)
	if depth > 0 && r.IntN(6) == 0 {
		if r.IntN(2) == 0 {
			return s // true
		}
		s.Not = &jsonschema.Schema{} // false
		return s
	}
	v := reflect.ValueOf(s).Elem()
	t := v.Type()
	pp := g.popProb(depth)
	note := func(name string) {
		if g.o.Populated != nil {
			g.o.Populated[fmt.Sprintf("%s@%d", name, depth)] = true
		}
	}
	for i := 0; i < t.NumField(); i++ {
		f := t.Field(i)
		if !f.IsExported() {
			continue
		}
		fv := v.Field(i)
		switch f.Type {
		case schemaPtrT:
			if r.IntN(100) < pp {
				fv.Set(reflect.ValueOf(g.child(depth + 1)))
				note(f.Name)
			}
		case schemaSliceT:
			if r.IntN(100) < pp {
				n := 1 + r.IntN(3)
				if r.IntN(8) == 0 {
					n = 0
				}
				emptyOK := !(g.o.Valid && (f.Name == "AnyOf" || f.Name == "OneOf"))
				if n == 0 && !emptyOK {
					n = 1
				}
				sl := make([]*jsonschema.Schema, n, n+[]int{0, 0, 1, 4}[r.IntN(4)]) // sometimes with spare capacity
				for j := range sl {
					sl[j] = g.child(depth + 1)
				}
				fv.Set(reflect.ValueOf(sl))
				note(f.Name)
			}
		case schemaMapT:
			if r.IntN(100) < pp {
				n := 1 + r.IntN(3)
				if r.IntN(8) == 0 {
					n = 0
				}
				m := map[string]*jsonschema.Schema{}
				for j := 0; j < n; j++ {
					k := Pick(r, Names)
					if f.Name == "PatternProperties" {
						k = Pick(r, Patterns)
						if g.o.Hostile && r.IntN(8) == 0 {
							k = Pick(r, []string{"(", "[a-", "a{2,1}", "\\p{Nope}", "(?<x>a)\\k<x>"})
						}
					}
					m[k] = g.child(depth + 1)
				}
				fv.Set(reflect.ValueOf(m))
				note(f.Name)
			}
		default:
			g.scalarField(s, f, fv, depth)
		}
	}
	g.fixExclusive(s)
	return s
}

func (g *stgen) jsonValue() any {
	return Canonical(Text(Value(g.r, ValueOpts{MaxDepth: 2, MaxLen: 2}, 0)))
}

func (g *stgen) scalarField(s *jsonschema.Schema, f reflect.StructField, fv reflect.Value, depth int) {
	r := g.r
	p := func(n int) bool { return r.IntN(100) < n }
	switch f.Name {
	case "ID", "Ref", "DynamicRef", "Anchor", "DynamicAnchor":
		if g.o.NoRefs {
			return
		}
		if g.o.Hostile && p(3) {
			fv.SetString(Pick(r, []string{"%zz", "#/nowhere", "http://[::1", "#frag", "://x", "a b", "#/$defs/~2", "urn:x", "http://x/y.json", "#"}))
			return
		}
		if f.Name == "Ref" && p(3) {
			fv.SetString("#")
		}
	case "Schema":
		if depth == 0 && p(20) {
			fv.SetString(Pick(r, []string{Schema2020URI, Schema7URI, Schema7URIs}))
		}
		if g.o.Hostile && p(3) {
			fv.SetString(Pick(r, []string{"http://json-schema.org/draft-04/schema#", "x", "https://json-schema.org/draft/2019-09/schema"}))
		}
	case "Comment", "Title", "Description", "ContentEncoding", "ContentMediaType", "Format":
		if p(6) {
			fv.SetString(Pick(r, []string{"t", "x y", "é", "date", "base64", "application/json", "<&>"}))
		}
	case "Pattern":
		if p(6) {
			fv.SetString(Pick(r, Patterns))
		}
		if g.o.Hostile && p(2) {
			fv.SetString("(")
		}
	case "Type":
		if p(20) {
			fv.SetString(Pick(r, TypeNames))
		}
		if g.o.Hostile && p(2) {
			fv.SetString("bogus")
		}
	case "Types":
		if s.Type == "" && p(10) || g.o.Hostile && p(3) {
			n := 1 + r.IntN(3)
			var ts []string
			for j := 0; j < n; j++ {
				ts = append(ts, Pick(r, TypeNames))
			}
			if p(10) {
				ts = []string{}
			}
			fv.Set(reflect.ValueOf(ts))
		}
	case "Required", "PropertyOrder":
		if f.Name == "PropertyOrder" && !g.o.PropOrder {
			return
		}
		if p(10) {
			n := r.IntN(4)
			ss := []string{}
			for j := 0; j < n; j++ {
				ss = append(ss, Pick(r, Names))
			}
			fv.Set(reflect.ValueOf(ss))
		}
	case "Deprecated", "ReadOnly", "WriteOnly", "UniqueItems":
		if p(8) {
			fv.SetBool(true)
		}
	case "Default":
		if p(8) {
			fv.Set(reflect.ValueOf(json.RawMessage(Text(Value(r, ValueOpts{MaxDepth: 2, MaxLen: 2}, 0)))))
		}
		if g.o.Hostile && p(3) {
			fv.Set(reflect.ValueOf(json.RawMessage(Pick(r, []string{"{", "", "nul", "[1,", "1e", "\"x", "{\"a\":}", " "}))))
		}
	case "Examples", "Enum":
		if p(8) {
			n := r.IntN(4)
			if n == 0 && g.o.Valid && f.Name == "Enum" {
				n = 1 // K3: empty-but-present enum is a pinned known finding
			}
			l := make([]any, n)
			for j := range l {
				l[j] = g.jsonValue()
			}
			fv.Set(reflect.ValueOf(l))
		}
	case "Const":
		if p(8) {
			v := g.jsonValue()
			fv.Set(reflect.ValueOf(&v))
		}
	case "Vocabulary":
		if g.o.Hostile && p(2) {
			fv.Set(reflect.ValueOf(map[string]bool{"https://json-schema.org/draft/2020-12/vocab/core": true}))
		}
	case "DependentRequired", "DependencyStrings":
		if p(6) {
			m := map[string][]string{}
			for j := r.IntN(3); j >= 0; j-- {
				l := []string{}
				for k := r.IntN(3); k > 0; k-- {
					l = append(l, Pick(r, Names))
				}
				if !g.o.Valid && p(10) {
					l = nil // K4 class (hostile only)
				}
				m[Pick(r, Names)] = l
			}
			if p(10) {
				m = map[string][]string{}
			}
			fv.Set(reflect.ValueOf(m))
		}
	case "Extra":
		if p(8) {
			m := map[string]any{}
			for j := r.IntN(3); j >= 0; j-- {
				m[Pick(r, []string{"x-a", "zzz", "$recursiveRef", "id", "Minimum", "TYPE", "x b", "extends"})] = g.jsonValue()
			}
			fv.Set(reflect.ValueOf(m))
		}
		if g.o.Hostile && p(2) {
			fv.Set(reflect.ValueOf(map[string]any{"type": "string"})) // collides with a keyword: Marshal documents an error
		}
	default:
		switch f.Type.String() {
		case "*float64":
			if p(6) {
				x, _ := json.Number(Pick(r, SchemaNumbers)).Float64()
				if f.Name == "MultipleOf" {
					x, _ = json.Number(Pick(r, MultipleOf)).Float64()
					if g.o.Hostile && p(10) {
						x = 0
					}
				}
				if g.o.Hostile && p(12) {
					// values no JSON text can hold; only a Schema built in Go carries them
					x = Pick(r, []float64{math.Inf(1), math.Inf(-1), math.NaN(), math.MaxFloat64, -math.MaxFloat64, math.SmallestNonzeroFloat64, math.Copysign(0, -1)})
				}
				fv.Set(reflect.ValueOf(&x))
			}
		case "*int":
			if p(6) {
				x := r.IntN(5)
				if g.o.Hostile && p(10) {
					x = -1
				}
				fv.Set(reflect.ValueOf(&x))
			}
		default:
			if g.o.Unknown != nil {
				g.o.Unknown[f.Name+" "+f.Type.String()] = true
			}
		}
	}
}

func (g *stgen) fixExclusive(s *jsonschema.Schema) {
	if !g.o.Valid && g.o.Hostile && g.r.IntN(10) == 0 {
		return // leave conflicts in place
	}
	if s.Type != "" {
		s.Types = nil
	}
	if s.Items != nil {
		s.ItemsArray = nil
	}
	if s.Defs != nil {
		s.Definitions = nil
	}
	for k := range s.DependencySchemas {
		delete(s.DependencyStrings, k)
	}
	if s.PropertyOrder != nil {
		seen := map[string]bool{}
		out := s.PropertyOrder[:0:0]
		for _, n := range s.PropertyOrder {
			if !seen[n] {
				seen[n] = true
				out = append(out, n)
			}
		}
		if out == nil {
			out = []string{}
		}
		s.PropertyOrder = out
	}
}

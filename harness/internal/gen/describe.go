package gen

import (
	"fmt"
	"reflect"
	"sort"
	"strings"
)

// Describe renders a Go value with its concrete types, following pointers (for witnesses).
func Describe(v any) string {
	var sb strings.Builder
	describe(&sb, reflect.ValueOf(v), 0)
	return sb.String()
}

func describe(sb *strings.Builder, v reflect.Value, depth int) {
	if !v.IsValid() {
		sb.WriteString("nil")
		return
	}
	if depth > 12 {
		sb.WriteString("...")
		return
	}
	switch v.Kind() {
	case reflect.Pointer:
		if v.IsNil() {
			fmt.Fprintf(sb, "(%s)(nil)", v.Type())
			return
		}
		sb.WriteString("&")
		describe(sb, v.Elem(), depth+1)
	case reflect.Interface:
		if v.IsNil() {
			sb.WriteString("nil")
			return
		}
		describe(sb, v.Elem(), depth+1)
	case reflect.Slice, reflect.Array:
		if v.Kind() == reflect.Slice && v.IsNil() {
			fmt.Fprintf(sb, "%s(nil)", v.Type())
			return
		}
		fmt.Fprintf(sb, "%s{", v.Type())
		for i := 0; i < v.Len(); i++ {
			if i > 0 {
				sb.WriteString(", ")
			}
			describe(sb, v.Index(i), depth+1)
		}
		sb.WriteString("}")
	case reflect.Map:
		if v.IsNil() {
			fmt.Fprintf(sb, "%s(nil)", v.Type())
			return
		}
		fmt.Fprintf(sb, "%s{", v.Type())
		keys := v.MapKeys()
		sort.Slice(keys, func(i, j int) bool { return fmt.Sprint(keys[i]) < fmt.Sprint(keys[j]) })
		for i, k := range keys {
			if i > 0 {
				sb.WriteString(", ")
			}
			fmt.Fprintf(sb, "%q: ", fmt.Sprint(k))
			describe(sb, v.MapIndex(k), depth+1)
		}
		sb.WriteString("}")
	case reflect.String:
		fmt.Fprintf(sb, "%s(%q)", v.Type(), v.String())
	case reflect.Func, reflect.Chan, reflect.UnsafePointer:
		fmt.Fprintf(sb, "%s(...)", v.Type())
	default:
		fmt.Fprintf(sb, "%s(%v)", v.Type(), v)
	}
}

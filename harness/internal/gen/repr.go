package gen

import (
	"encoding/json"
	"fmt"
	"math"
	"math/big"
	"math/rand/v2"
	"reflect"
	"strings"
)

// Named types used as non-canonical representations.
type (
	NInt    int
	NInt8   int8
	NUint16 uint16
	NFloat  float64
	NStr    string
	NBool   bool
	NKey    string
	NSlice  []any
	NMap    map[string]any
)

var anyType = reflect.TypeOf((*any)(nil)).Elem()

// ReprTrace records which Go kinds a representation used (for non-triviality keys).
type ReprTrace struct{ Kinds map[string]bool }

func (t *ReprTrace) note(k string) {
	if t == nil {
		return
	}
	if t.Kinds == nil {
		t.Kinds = map[string]bool{}
	}
	t.Kinds[k] = true
}

func (t *ReprTrace) Key() string {
	if t == nil {
		return ""
	}
	ks := make([]string, 0, len(t.Kinds))
	for k := range t.Kinds {
		ks = append(ks, k)
	}
	sortStrings(ks)
	return strings.Join(ks, ",")
}

func sortStrings(a []string) {
	for i := 1; i < len(a); i++ {
		for j := i; j > 0 && a[j] < a[j-1]; j-- {
			a[j], a[j-1] = a[j-1], a[j]
		}
	}
}

// ReprOpts controls which representations are produced.
type ReprOpts struct {
	NoNumberSpellings bool // json.Number keeps its original spelling only
	NoNamedKeys       bool
	NoTyped           bool // containers hold `any` elements only (no []int, map[string]int, ...)
	NoArrays          bool // no Go arrays ([N]T): as a decode target they silently truncate
}

// numberReprs lists every exact Go representation of the number n (given by its JSON text).
func numberReprs(text string, o ReprOpts) []func() (any, string) {
	r, ok := new(big.Rat).SetString(text)
	if !ok {
		return []func() (any, string){func() (any, string) { return json.Number(text), "json.Number" }}
	}
	var out []func() (any, string)
	add := func(v any, k string) { out = append(out, func() (any, string) { return v, k }) }
	add(json.Number(text), "json.Number")
	if r.Sign() == 0 && strings.HasPrefix(text, "-") {
		// negative zero: the same JSON number as 0, another bit pattern
		add(math.Copysign(0, -1), "float64(-0)")
		add(float32(math.Copysign(0, -1)), "float32(-0)")
	}
	if f, exact := r.Float64(); exact && !math.IsInf(f, 0) {
		add(f, "float64")
		add(NFloat(f), "NFloat")
		if f32 := float32(f); float64(f32) == f {
			add(f32, "float32")
		}
	}
	if !o.NoNumberSpellings {
		// other lexical forms of the same number: upper/lower-case exponent markers, shifted exponents (an integer spelled with a
		// negative exponent, a fraction spelled without a decimal point), trailing zeros
		if num, k, ok := decimalParts(r); ok {
			add(json.Number(fmt.Sprintf("%sE-%d", num, k)), "json.Number(E-k)")
			add(json.Number(fmt.Sprintf("%s0e-%d", num, k+1)), "json.Number(0e-k)")
			if k > 0 {
				add(json.Number(fmt.Sprintf("%se-%d", num, k)), "json.Number(e-k)")
			} else {
				add(json.Number(fmt.Sprintf("%sE+0", num)), "json.Number(E+0)")
			}
		}
	}
	if r.IsInt() {
		n := r.Num()
		if n.IsInt64() {
			i := n.Int64()
			add(i, "int64")
			if i >= math.MinInt32 && i <= math.MaxInt32 {
				add(int32(i), "int32")
				add(int(i), "int")
				add(NInt(i), "NInt")
			} else {
				add(int(i), "int")
			}
			if i >= math.MinInt16 && i <= math.MaxInt16 {
				add(int16(i), "int16")
			}
			if i >= math.MinInt8 && i <= math.MaxInt8 {
				add(int8(i), "int8")
				add(NInt8(i), "NInt8")
			}
		}
		if n.IsUint64() {
			u := n.Uint64()
			add(u, "uint64")
			add(uint(u), "uint")
			if u <= math.MaxUint32 {
				add(uint32(u), "uint32")
			}
			if u <= math.MaxUint16 {
				add(uint16(u), "uint16")
				add(NUint16(u), "NUint16")
			}
			if u <= math.MaxUint8 {
				add(uint8(u), "uint8")
			}
			add(uintptr(u), "uintptr")
		}
		if !o.NoNumberSpellings && n.IsInt64() && n.BitLen() < 40 {
			s := n.String()
			add(json.Number(s+".0"), "json.Number(.0)")
			add(json.Number(s+"e0"), "json.Number(e0)")
			add(json.Number(s+"0e-1"), "json.Number(0e-1)")
			add(json.Number(s+".000"), "json.Number(.000)")
		}
	}
	return out
}

// Repr builds one random exact Go representation of the model-form value v.
func Repr(r *rand.Rand, v any, o ReprOpts, t *ReprTrace) any {
	val := repr(r, v, o, t, 0)
	// 0-2 layers of pointer wrapping at the top
	for i := 0; i < 2 && r.IntN(8) == 0; i++ {
		val = ptrTo(val)
		t.note("ptr")
	}
	return val
}

func ptrTo(v any) any {
	if v == nil {
		var x any
		return &x
	}
	p := reflect.New(reflect.TypeOf(v))
	p.Elem().Set(reflect.ValueOf(v))
	return p.Interface()
}

func repr(r *rand.Rand, v any, o ReprOpts, t *ReprTrace, depth int) any {
	switch x := v.(type) {
	case nil:
		switch r.IntN(6) {
		case 0:
			t.note("nilptr")
			return (*int)(nil)
		case 1:
			t.note("nilptr")
			return (*map[string]any)(nil)
		case 2:
			t.note("nilptr")
			var p *any
			return p
		default:
			return nil
		}
	case bool:
		switch r.IntN(5) {
		case 0:
			t.note("NBool")
			return NBool(x)
		case 1:
			t.note("ptr")
			return &x
		default:
			return x
		}
	case json.Number:
		opts := numberReprs(string(x), o)
		val, k := opts[r.IntN(len(opts))]()
		t.note(k)
		if r.IntN(10) == 0 {
			t.note("ptr")
			return ptrTo(val)
		}
		return val
	case string:
		switch r.IntN(6) {
		case 0:
			t.note("NStr")
			return NStr(x)
		case 1:
			t.note("ptr")
			return &x
		default:
			return x
		}
	case []any:
		els := make([]any, len(x))
		for i := range x {
			els[i] = repr(r, x[i], o, t, depth+1)
		}
		return listOf(r, x, els, o, t)
	case map[string]any:
		els := make(map[string]any, len(x))
		ks := make([]string, 0, len(x))
		for k := range x {
			ks = append(ks, k)
		}
		sortStrings(ks) // never consume randomness in map order
		for _, k := range ks {
			els[k] = repr(r, x[k], o, t, depth+1)
		}
		return mapOf(r, x, els, o, t)
	}
	panic("gen.repr: not a model-form value")
}

// commonType returns a Go type that can hold every element exactly, or nil.
// model holds the model-form elements, els the already chosen representations.
func commonType(r *rand.Rand, model []any, els []any, o ReprOpts) (reflect.Type, []any) {
	t, vals := commonType0(r, model, els, o)
	if t != nil && len(vals) > 0 && t.Kind() != reflect.Interface && r.IntN(6) == 0 {
		// the same container with POINTER elements ([]*int, []*string, map[string]*float64 ...): every element behind its own,
		// distinct pointer - equal values at different addresses
		pt := reflect.PointerTo(t)
		out := make([]any, len(vals))
		for i, v := range vals {
			if v == nil {
				return t, vals
			}
			p := reflect.New(t)
			p.Elem().Set(reflect.ValueOf(v))
			out[i] = p.Interface()
		}
		return pt, out
	}
	return t, vals
}

func commonType0(r *rand.Rand, model []any, els []any, o ReprOpts) (reflect.Type, []any) {
	if len(model) == 0 {
		// any element type works for an empty container
		return Pick(r, []reflect.Type{reflect.TypeOf(0), reflect.TypeOf(""), reflect.TypeOf(0.0), anyType, reflect.TypeOf(map[string]any{}), reflect.TypeOf([]any{})}), nil
	}
	allNum, allStr, allBool := true, true, true
	for _, m := range model {
		if _, ok := m.(json.Number); !ok {
			allNum = false
		}
		if _, ok := m.(string); !ok {
			allStr = false
		}
		if _, ok := m.(bool); !ok {
			allBool = false
		}
	}
	switch {
	case allNum:
		// intersect the kinds that hold every element
		cands := map[string]int{}
		vals := map[string][]any{}
		for _, m := range model {
			seen := map[string]bool{}
			for _, f := range numberReprs(string(m.(json.Number)), ReprOpts{NoNumberSpellings: true}) {
				v, k := f()
				if seen[k] {
					continue
				}
				seen[k] = true
				cands[k]++
				vals[k] = append(vals[k], v)
			}
		}
		var ok []string
		for k, n := range cands {
			if n == len(model) && k != "uint8" { // []uint8 is []byte: encoding/json gives it another meaning
				ok = append(ok, k)
			}
		}
		if len(ok) == 0 {
			return nil, nil
		}
		sortStrings(ok)
		k := ok[r.IntN(len(ok))]
		if r.IntN(10) < 3 {
			for _, cand := range ok {
				if cand == "json.Number" { // []json.Number keeps every element's own spelling ("1", "1.0", "1e0")
					k = cand
				}
			}
		}
		return reflect.TypeOf(vals[k][0]), vals[k]
	case allStr:
		if r.IntN(3) == 0 {
			out := make([]any, len(model))
			for i, m := range model {
				out[i] = NStr(m.(string))
			}
			return reflect.TypeOf(NStr("")), out
		}
		out := make([]any, len(model))
		for i, m := range model {
			out[i] = m.(string)
		}
		return reflect.TypeOf(""), out
	case allBool:
		out := make([]any, len(model))
		for i, m := range model {
			out[i] = m.(bool)
		}
		return reflect.TypeOf(true), out
	}
	// homogeneous by chance?
	var ty reflect.Type
	for _, e := range els {
		if e == nil {
			return nil, nil
		}
		if ty == nil {
			ty = reflect.TypeOf(e)
		} else if reflect.TypeOf(e) != ty {
			return nil, nil
		}
	}
	if ty != nil && ty.Kind() == reflect.Uint8 {
		return nil, nil
	}
	return ty, els
}

// allEmptyLists reports whether every element is an empty JSON array (and there is at least one).
func allEmptyLists(model []any) bool {
	if len(model) == 0 {
		return false
	}
	for _, m := range model {
		if l, ok := m.([]any); !ok || len(l) != 0 {
			return false
		}
	}
	return true
}

func listOf(r *rand.Rand, model, els []any, o ReprOpts, t *ReprTrace) any {
	if allEmptyLists(model) && !o.NoTyped && !o.NoArrays && r.IntN(2) == 0 {
		// a list of empty lists as a slice of ZERO-SIZE Go arrays ([][0]int{{}, {}}): all such slices share one data pointer
		et := reflect.ArrayOf(0, Pick(r, []reflect.Type{reflect.TypeOf(0), reflect.TypeOf(""), anyType, reflect.TypeOf(0.0)}))
		s := reflect.MakeSlice(reflect.SliceOf(et), len(model), len(model))
		t.note("slice[zero-size array]")
		return s.Interface()
	}
	if len(model) > 0 && !o.NoTyped && !o.NoArrays && r.IntN(2) == 0 {
		// a list whose elements are all lists of k empty lists: [][k][0]T (still zero-size elements)
		k := -1
		ok := true
		for _, m := range model {
			l, isList := m.([]any)
			if !isList || !allEmptyLists(l) || (k >= 0 && len(l) != k) {
				ok = false
				break
			}
			k = len(l)
		}
		if ok && k > 0 {
			et := reflect.ArrayOf(k, reflect.ArrayOf(0, Pick(r, []reflect.Type{reflect.TypeOf(0), reflect.TypeOf(""), anyType})))
			s := reflect.MakeSlice(reflect.SliceOf(et), len(model), len(model))
			t.note("slice[zero-size nested array]")
			return s.Interface()
		}
	}
	mode := r.IntN(10)
	if mode >= 8 && !o.NoTyped && !o.NoArrays && len(model) > 0 && r.IntN(3) == 0 {
		// a Go ARRAY of bytes ([N]uint8: digests, addresses). Unlike []byte, encoding/json writes it as an array of numbers.
		// Held in an interface or inside an outer array it is not addressable.
		bs := make([]uint8, 0, len(model))
		for _, m := range model {
			n, isNum := m.(json.Number)
			if !isNum {
				break
			}
			for _, f := range numberReprs(string(n), ReprOpts{NoNumberSpellings: true}) {
				if v, k := f(); k == "uint8" {
					bs = append(bs, v.(uint8))
					break
				}
			}
		}
		if len(bs) == len(model) {
			a := reflect.New(reflect.ArrayOf(len(bs), reflect.TypeOf(uint8(0)))).Elem()
			for i, b := range bs {
				a.Index(i).SetUint(uint64(b))
			}
			t.note("array[uint8]")
			return a.Interface()
		}
	}
	if mode >= 5 && !o.NoTyped { // typed container
		if ty, vals := commonType(r, model, els, o); ty != nil {
			if vals == nil {
				vals = els
			}
			if mode >= 8 && !o.NoArrays {
				a := reflect.New(reflect.ArrayOf(len(vals), ty)).Elem()
				for i, e := range vals {
					setElem(a.Index(i), e)
				}
				t.note("array[" + ty.Kind().String() + "]")
				return a.Interface()
			}
			s := reflect.MakeSlice(reflect.SliceOf(ty), len(vals), len(vals))
			for i, e := range vals {
				setElem(s.Index(i), e)
			}
			t.note("slice[" + ty.Kind().String() + "]")
			return s.Interface()
		}
	}
	if o.NoArrays && mode == 0 {
		mode = 2
	}
	switch mode {
	case 0:
		a := reflect.New(reflect.ArrayOf(len(els), anyType)).Elem()
		for i, e := range els {
			setElem(a.Index(i), e)
		}
		t.note("array[any]")
		return a.Interface()
	case 1:
		t.note("NSlice")
		return NSlice(els)
	}
	return els
}

func setElem(dst reflect.Value, e any) {
	if e == nil {
		dst.Set(reflect.Zero(dst.Type()))
		return
	}
	dst.Set(reflect.ValueOf(e))
}

func mapOf(r *rand.Rand, model, els map[string]any, o ReprOpts, t *ReprTrace) any {
	mode := r.IntN(10)
	keyT := reflect.TypeOf("")
	named := false
	if !o.NoNamedKeys && r.IntN(3) == 0 {
		keyT = reflect.TypeOf(NKey(""))
		if r.IntN(3) == 0 {
			keyT = reflect.TypeOf(json.Number("")) // a string kind that number-aware code treats specially; as a KEY it is just a string
		}
		named = true
	}
	build := func(elemT reflect.Type, vals map[string]any) any {
		m := reflect.MakeMapWithSize(reflect.MapOf(keyT, elemT), len(vals))
		for k, e := range vals {
			kv := reflect.ValueOf(k).Convert(keyT)
			if e == nil {
				m.SetMapIndex(kv, reflect.Zero(elemT))
			} else {
				m.SetMapIndex(kv, reflect.ValueOf(e))
			}
		}
		return m.Interface()
	}
	if mode >= 6 && !o.NoTyped {
		keys := make([]string, 0, len(model))
		for k := range model {
			keys = append(keys, k)
		}
		sortStrings(keys)
		ml := make([]any, len(keys))
		el := make([]any, len(keys))
		for i, k := range keys {
			ml[i], el[i] = model[k], els[k]
		}
		if ty, vals := commonType(r, ml, el, o); ty != nil {
			if vals == nil {
				vals = el
			}
			vm := map[string]any{}
			for i, k := range keys {
				vm[k] = vals[i]
			}
			t.note("map[" + keyT.Name() + "]" + ty.Kind().String())
			return build(ty, vm)
		}
	}
	if named {
		t.note("map[" + keyT.Name() + "]any")
		return build(anyType, els)
	}
	if mode == 0 {
		t.note("NMap")
		return NMap(els)
	}
	return els
}

// decimalParts writes r as num / 10^k with the smallest k >= 0 (ok=false if r has no short terminating decimal expansion).
func decimalParts(r *big.Rat) (num string, k int, ok bool) {
	v := new(big.Rat).Set(r)
	ten := big.NewRat(10, 1)
	for k = 0; k <= 25; k++ {
		if v.IsInt() {
			if v.Num().BitLen() > 200 {
				return "", 0, false
			}
			return v.Num().String(), k, true
		}
		v.Mul(v, ten)
	}
	return "", 0, false
}

package props

import (
	"bytes"
	"encoding/json"
	"fmt"
	"reflect"
	"strings"
	"sync"

	"github.com/google/jsonschema-go/jsonschema"

	"verif/internal/fw"
	"verif/internal/gen"
	"verif/internal/snap"
)

// C20: CloneSchemas yields an equal and fully independent schema tree.
type c20 struct{}

func init() { register(c20{}) }

func (c20) ID() string { return "C20" }
func (c20) Cases(t fw.Tier) int {
	return tierN(t, 8000, 250000)
}
func (c20) Rule() string {
	return "each case builds a Schema tree that populates subschema-bearing fields found by the harness's OWN reflection over Schema's exported fields by Go type (*Schema, []*Schema, map[string]*Schema; incl. the draft-07 ones), depth <= 4, with nil and empty containers, " +
		"in every fresh worker process the very first CloneSchemas calls are issued by 8 goroutines at once (cold start) and each clone must be disjoint from the original; then per case: Marshal(clone) == Marshal(orig) bytewise; the sets of *Schema addresses of both trees (own reflection walk) are disjoint; a parent holding both still resolves whenever a parent holding the original alone does; " +
		"and a mutation sweep in both directions: the observed tree first appends an element of its own to every schema slice (slices are generated with and without spare capacity), then every exported field of every Schema object of one tree is overwritten with a sentinel (scalar fields replaced, every schema slice element and schema map entry reassigned, new entries added) and the other tree's deep snapshot (values + pointer graph) and marshaled bytes must not change. " +
		"The run is inconclusive if some subschema-bearing field was never populated. Non-trivial: >=3 distinct subschema-bearing fields populated with one at depth >= 2; distinct by the set of (field, depth) pairs."
}
func (c20) Assumptions() []string {
	return []string{"slices and maps of NON-schema values are shared by contract: the sweep replaces whole field values and never writes through such a slice/map",
		"trees are generated without $id/$anchor/$ref, so a parent holding original and clone has no duplicate identifiers"}
}

// overwriteAll assigns a sentinel to every exported field of every Schema object reachable from s.
func overwriteAll(s *jsonschema.Schema, seen map[*jsonschema.Schema]bool) {
	if s == nil || seen[s] {
		return
	}
	seen[s] = true
	v := reflect.ValueOf(s).Elem()
	t := v.Type()
	// first recurse (children are found through the current field values), then overwrite
	var kids []*jsonschema.Schema
	for i := 0; i < t.NumField(); i++ {
		if !t.Field(i).IsExported() {
			continue
		}
		switch x := v.Field(i).Interface().(type) {
		case *jsonschema.Schema:
			kids = append(kids, x)
		case []*jsonschema.Schema:
			kids = append(kids, x...)
		case map[string]*jsonschema.Schema:
			for _, k := range x {
				kids = append(kids, k)
			}
		}
	}
	for _, k := range kids {
		overwriteAll(k, seen)
	}
	for i := 0; i < t.NumField(); i++ {
		f := t.Field(i)
		if !f.IsExported() {
			continue
		}
		fv := v.Field(i)
		switch x := fv.Interface().(type) {
		case *jsonschema.Schema:
			fv.Set(reflect.ValueOf(&jsonschema.Schema{Title: "SENTINEL"}))
		case []*jsonschema.Schema:
			for k := range x {
				x[k] = &jsonschema.Schema{Title: "SENTINEL"} // element assignment: the slice itself must be the tree's own
			}
			fv.Set(reflect.ValueOf(append(x, &jsonschema.Schema{Title: "SENTINEL-APPENDED"})))
		case map[string]*jsonschema.Schema:
			if x != nil {
				for k := range x {
					x[k] = &jsonschema.Schema{Title: "SENTINEL"}
				}
				x["zz-sentinel"] = &jsonschema.Schema{Title: "SENTINEL"}
			} else {
				fv.Set(reflect.ValueOf(map[string]*jsonschema.Schema{"zz-sentinel": {Title: "SENTINEL"}}))
			}
		default:
			switch fv.Kind() {
			case reflect.String:
				fv.SetString("SENTINEL")
			case reflect.Bool:
				fv.SetBool(!fv.Bool())
			case reflect.Pointer, reflect.Slice, reflect.Map:
				// replace the whole value (never write through a shared non-schema slice/map)
				fv.Set(reflect.Zero(fv.Type()))
			}
		}
	}
}

var c20Cold sync.Once

// coldStart: the FIRST CloneSchemas calls of this fresh process run concurrently (lazily built tables must not be
// observable half-built); every clone must be disjoint from the original and from the other clones.
func (c20) coldStart(c *fw.Case) {
	r := c.SubRand("cold")
	s := gen.SchemaStruct(r, &gen.StructOpts{Valid: true, MaxDepth: 4, NoRefs: true, FillAll: true})
	const k = 8
	clones := make([]*jsonschema.Schema, k)
	var wg sync.WaitGroup
	start := make(chan struct{})
	for g := 0; g < k; g++ {
		wg.Add(1)
		go func(g int) {
			defer wg.Done()
			defer func() { recover() }()
			<-start
			clones[g] = s.CloneSchemas()
		}(g)
	}
	close(start)
	wg.Wait()
	po := snap.Pointers[jsonschema.Schema](s)
	for g, cl := range clones {
		if cl == nil {
			c.Violation("a concurrent first CloneSchemas call panicked", map[string]any{"goroutine": g})
			return
		}
		c.Eval(1)
		for p := range snap.Pointers[jsonschema.Schema](cl) {
			if po[p] {
				c.Violation("a clone made by one of the first, concurrent CloneSchemas calls of the process shares a Schema object with the original", map[string]any{"goroutine": g, "original_objects": len(po)})
				return
			}
		}
	}
	c.Count("cold_start_concurrent_clone_rounds", 1)
}

func (p c20) Run(c *fw.Case) {
	if c.Idx%6 == 5 {
		failedCalls(c) // call history: failed calls before the case must leave nothing behind
	}
	c20Cold.Do(func() { p.coldStart(c) })
	r := c.R
	if c.Idx%400 == 123 {
		p.deepChain(c)
		return
	}
	populated := map[string]bool{}
	o := &gen.StructOpts{Valid: true, MaxDepth: 4, NoRefs: true, FillAll: true, Populated: populated, PropOrder: c.Idx%3 == 0}
	s := gen.SchemaStruct(r, o)
	for name := range populated {
		c.Count("populated:"+name[:strings.IndexByte(name, '@')], 1)
	}
	shared := 0
	if c.Idx%5 == 2 {
		shared = shareSubschemas(r, s) // a DAG: sub-schema objects used at two places
		c.Count("dag_inputs", 1)
	}
	m0, err, ok := marshalSchema(c, s, "generated tree")
	if !ok || err != nil {
		if err != nil {
			c.Inconclusive("generated tree does not marshal: " + err.Error())
		}
		return
	}
	var clone *jsonschema.Schema
	if !c.CallChecked("CloneSchemas", map[string]any{"schema": json.RawMessage(m0)}, func() { clone = s.CloneSchemas() }) {
		return
	}
	c.Eval(1)
	wit := func(extra map[string]any) map[string]any {
		w := map[string]any{"schema": json.RawMessage(m0)}
		for k, v := range extra {
			w[k] = v
		}
		return w
	}
	m1, err, ok := marshalSchema(c, clone, "clone")
	if !ok {
		return
	}
	if err != nil || !bytes.Equal(m0, m1) {
		c.Violation("the clone does not marshal like the original", wit(map[string]any{"clone": string(m1), "error": fmt.Sprint(err)}))
		return
	}
	// pointer sets
	po, pc := snap.Pointers[jsonschema.Schema](s), snap.Pointers[jsonschema.Schema](clone)
	for p := range pc {
		if po[p] {
			c.Violation("the clone shares a Schema object with the original", wit(map[string]any{"shared_object_title": p.Title, "shared_object_type": p.Type, "original_objects": len(po), "clone_objects": len(pc)}))
			return
		}
	}
	if len(po) != len(pc) && shared == 0 {
		c.Violation("the clone has a different number of Schema objects", wit(map[string]any{"original_objects": len(po), "clone_objects": len(pc)}))
		return
	}
	if c.Idx%3 == 1 {
		// a clone is a Schema like any other: edited in Go (sub-schemas added where there were none, containers extended) and
		// cloned again. The second clone shares nothing with the first.
		e := s.CloneSchemas()
		added := 0
		for node := range snap.Pointers[jsonschema.Schema](e) {
			v := reflect.ValueOf(node).Elem()
			for i := 0; i < v.NumField(); i++ {
				if !v.Type().Field(i).IsExported() || r.IntN(3) != 0 {
					continue
				}
				fv := v.Field(i)
				switch x := fv.Interface().(type) {
				case *jsonschema.Schema:
					if x == nil {
						fv.Set(reflect.ValueOf(&jsonschema.Schema{Title: "added after the first clone"}))
						added++
					}
				case []*jsonschema.Schema:
					fv.Set(reflect.ValueOf(append(x, &jsonschema.Schema{Title: "appended after the first clone"})))
					added++
				case map[string]*jsonschema.Schema:
					if x == nil {
						x = map[string]*jsonschema.Schema{}
						fv.Set(reflect.ValueOf(x))
					}
					x["zz-added"] = &jsonschema.Schema{Title: "inserted after the first clone"}
					added++
				}
			}
		}
		var d *jsonschema.Schema
		if !c.CallChecked("CloneSchemas", map[string]any{"schema": json.RawMessage(m0), "note": "clone of an edited clone"}, func() { d = e.CloneSchemas() }) {
			return
		}
		c.Eval(1)
		pe, pd := snap.Pointers[jsonschema.Schema](e), snap.Pointers[jsonschema.Schema](d)
		for p := range pd {
			if pe[p] {
				c.Violation("the clone of an edited clone shares a Schema object with it", wit(map[string]any{"shared_object_title": p.Title, "objects_added_after_the_first_clone": added}))
				return
			}
		}
		if len(pe) != len(pd) {
			c.Violation("the clone of an edited clone has a different number of Schema objects", wit(map[string]any{"edited_clone_objects": len(pe), "second_clone_objects": len(pd), "objects_added_after_the_first_clone": added}))
			return
		}
		c.Count("clones_of_edited_clones", 1)
	}
	// a parent holding both
	_, e1, ok := resolveSchema(c, &jsonschema.Schema{AllOf: []*jsonschema.Schema{s}}, "parent(original)")
	if !ok {
		return
	}
	if e1 == nil {
		_, e2, ok := resolveSchema(c, &jsonschema.Schema{AllOf: []*jsonschema.Schema{s, clone}}, "parent(original, clone)")
		if !ok {
			return
		}
		if e2 != nil {
			c.Violation("a parent holding the original and its clone does not resolve: "+e2.Error(), wit(nil))
			return
		}
		c.Count("parent_resolved", 1)
	}
	// mutation sweep, both directions
	for dir := 0; dir < 2; dir++ {
		a, b := s, clone // mutate b, observe a
		if dir == 1 {
			// fresh pair for the other direction
			a = clone.CloneSchemas()
			b = clone
			a, b = b, a
		}
		// first extend every schema slice of the OBSERVED tree by one element (its own appends must stay its own, even
		// when an empty slice with spare capacity was "cloned"), then overwrite and extend the other tree
		appendAll(a, map[*jsonschema.Schema]bool{})
		before := snap.Of(a)
		beforeBytes, _, _ := marshalSchema(c, a, "before sweep")
		overwriteAll(b, map[*jsonschema.Schema]bool{})
		after := snap.Of(a)
		afterBytes, _, _ := marshalSchema(c, a, "after sweep")
		c.Eval(1)
		if before != after || !bytes.Equal(beforeBytes, afterBytes) {
			c.Violation("assigning to the fields of one tree changed the other tree", wit(map[string]any{"direction": dir, "other_before": string(beforeBytes), "other_after": string(afterBytes)}))
			return
		}
	}
	fields := map[string]bool{}
	deep := false
	for name := range populated {
		i := strings.IndexByte(name, '@')
		fields[name[:i]] = true
		if name[i+1:] >= "2" {
			deep = true
		}
	}
	if len(fields) >= 3 && deep {
		c.Nontrivial(strings.Join(sortedKeys(populated), ","))
	}
	if c.Idx%2000 == 0 {
		c.Sample(map[string]any{"schema": json.RawMessage(m0), "schema_objects": len(po)})
	}
}

// Finalize: every subschema-bearing field must have been populated at least once.
func (c20) Finalize(a *fw.Agg, t fw.Tier) {
	single, slice, maps := gen.SubschemaFields()
	var missing []string
	for _, n := range append(append(single, slice...), maps...) {
		if a.Counters["populated:"+n] == 0 {
			missing = append(missing, n)
		}
	}
	a.Extra["subschema_fields_found_by_reflection"] = len(single) + len(slice) + len(maps)
	if len(missing) > 0 {
		a.AddInconclusive("subschema-bearing fields never populated: " + strings.Join(missing, ","))
	}
}

// appendAll appends one marker schema to every schema slice (also empty, non-nil ones) of the tree.
func appendAll(s *jsonschema.Schema, seen map[*jsonschema.Schema]bool) {
	if s == nil || seen[s] {
		return
	}
	seen[s] = true
	v := reflect.ValueOf(s).Elem()
	for i := 0; i < v.NumField(); i++ {
		if !v.Type().Field(i).IsExported() {
			continue
		}
		fv := v.Field(i)
		switch x := fv.Interface().(type) {
		case *jsonschema.Schema:
			appendAll(x, seen)
		case []*jsonschema.Schema:
			for _, k := range x {
				appendAll(k, seen)
			}
			if x != nil {
				fv.Set(reflect.ValueOf(append(x, &jsonschema.Schema{Title: "OWN-APPEND"})))
			}
		case map[string]*jsonschema.Schema:
			for _, k := range x {
				appendAll(k, seen)
			}
		}
	}
}

// deepChain: a tree that is one long chain (depths around the nesting limits other packages have: 1000, 10000, ...), built in
// Go. It is a tree like any other: the clone is a disjoint chain of the same length.
func (c20) deepChain(c *fw.Case) {
	r := c.R
	depth := gen.Pick(r, []int{999, 1000, 1001, 4096, 9999, 10000, 10001, 10002, 12000, 20000})
	root := &jsonschema.Schema{Title: "level 0"}
	cur := root
	for i := 1; i <= depth; i++ {
		next := &jsonschema.Schema{Title: fmt.Sprintf("level %d", i)}
		switch r.IntN(5) {
		case 0:
			cur.Not = next
		case 1:
			cur.Items = next
		case 2:
			cur.AllOf = []*jsonschema.Schema{next}
		case 3:
			cur.Properties = map[string]*jsonschema.Schema{"k": next}
		default:
			cur.AdditionalProperties = next
		}
		cur = next
	}
	step := func(s *jsonschema.Schema) *jsonschema.Schema {
		switch {
		case s.Not != nil:
			return s.Not
		case s.Items != nil:
			return s.Items
		case len(s.AllOf) > 0:
			return s.AllOf[0]
		case s.Properties != nil:
			return s.Properties["k"]
		}
		return s.AdditionalProperties
	}
	var clone *jsonschema.Schema
	if !c.CallChecked("CloneSchemas", map[string]any{"chain_depth": depth}, func() { clone = root.CloneSchemas() }) {
		return
	}
	c.Eval(1)
	orig := map[*jsonschema.Schema]bool{}
	for s := root; s != nil; s = step(s) {
		orig[s] = true
	}
	n := 0
	for s, o := clone, root; ; s, o = step(s), step(o) {
		if s == nil || o == nil {
			if s != nil || o != nil {
				c.Violation(fmt.Sprintf("the clone of a chain of depth %d ends at level %d", depth, n), map[string]any{"chain_depth": depth})
				return
			}
			break
		}
		if orig[s] {
			c.Violation(fmt.Sprintf("the clone of a chain of depth %d shares the Schema object at level %d with the original", depth, n), map[string]any{"chain_depth": depth, "level": n, "title": s.Title})
			return
		}
		if s.Title != o.Title {
			c.Violation(fmt.Sprintf("the clone of a chain of depth %d differs at level %d", depth, n), map[string]any{"chain_depth": depth, "level": n})
			return
		}
		n++
	}
	c.Count("deep_chain_clones", 1)
	c.Nontrivial(fmt.Sprintf("deep-chain|%d", depth))
}

//go:build !verif

package props

import "verif/internal/fw"

func (p c12) hashLaw(c *fw.Case) {
	c.Count("hash_law_skipped_no_hook", 1)
	p.unique(c)
}

package props

import (
	"encoding/json"
	"fmt"
	"net/url"
	"os"
	"path/filepath"
	"reflect"
	"sort"
	"strings"
	"sync"

	"github.com/google/jsonschema-go/jsonschema"

	"verif/internal/fw"
	"verif/internal/gen"
	"verif/internal/refmodel"
)

// C10: every entry point returns a value or an error - never a panic or a hang.
type c10 struct{}

func init() { register(c10{}) }

func (c10) ID() string { return "C10" }
func (c10) Cases(t fw.Tier) int {
	return tierN(t, 60000, 2000000)
}
func (c10) BatchSize(t fw.Tier) int { return 400 }
func (c10) Race(t fw.Tier) bool     { return false }
func (c10) LogCalls() bool          { return true }
func (c10) Rule() string {
	return "hostile workloads, every call under recover(), a logical step budget (hook: entries into validate / applyDefaults / resolve / forType per top-level call; a separate cap on nested resolves), a memory cap, and a process-level watchdog " +
		"(child processes of 400 cases; a call record is logged before every case so a fatal error identifies its input; suspects are re-run in isolation): " +
		"(1) bytes -> Unmarshal(+Resolve+Validate): official suite schemas and generated documents with byte-level corruption, truncation, duplicated keys, deep nesting (<=600), every keyword x every JSON type incl. null as value; " +
		"(2) hostile Schema VALUES (reflective generator: nil children, shared pointers, cycles, Type+Types, bad URIs, bad patterns, negative integers, zero multipleOf, colliding Extra) -> Resolve with every option combination and Loader behaviour " +
		"(error, a document meant for another URI, a document that references the root or itself, the same *Schema twice, the root itself); " +
		"(3) every Resolved obtained -> Validate and ApplyDefaults(&x) on pool instances in random exact Go representations (non-JSON kinds - chan, func, complex, struct, map[int]T - are executed and counted but not decided: outside the stated domain); " +
		"(4) For/ForType over the type corpus incl. recursive and mutually recursive types, unsupported kinds at depth, with/without IgnoreInvalidTypes, hostile TypeSchemas; (5) Marshal and CloneSchemas on the acyclic hostile values, Equal on instance pairs. " +
		"Validate/ApplyDefaults are decided only when schema recursion passes through an instance-descending keyword (no $ref/$dynamicRef at all, or the reference model evaluates the same pair without re-entering a (schema, location) pair). " +
		"Non-trivial: the call returned an error (the hostile path was taken) or used a non-canonical representation; distinct by (entry point, error class = first words of the message with literals erased)."
}
func (c10) Assumptions() []string {
	return []string{"domain guards computed by the harness: in-place reference cycles, cyclic values for Marshal/CloneSchemas/Equal (documented as unsupported), loaders returning (nil, nil), nil reflect.Type are not decided",
		"step budget 100,000 hook events per call (generated inputs need < 10,000); a firing budget or watchdog is confirmed by an isolated re-run before it counts"}
}

var (
	suiteOnce sync.Once
	suiteDocs []string
)

// suiteSchemas loads the schemas of the official suite copy (seed corpus for byte-level mutation).
func suiteSchemas() []string {
	suiteOnce.Do(func() {
		dir := os.Getenv("VERIF_DIR")
		if dir == "" {
			dir = "/verif"
		}
		files, _ := filepath.Glob(filepath.Join(dir, "oracle/suite/draft*/*.json"))
		sort.Strings(files)
		for _, f := range files {
			data, err := os.ReadFile(f)
			if err != nil {
				continue
			}
			var groups []struct {
				Schema json.RawMessage `json:"schema"`
			}
			if json.Unmarshal(data, &groups) == nil {
				for _, g := range groups {
					suiteDocs = append(suiteDocs, string(g.Schema))
				}
			}
		}
		if len(suiteDocs) == 0 {
			suiteDocs = []string{`{"type":"object"}`}
		}
	})
	return suiteDocs
}

func errClass(err error) string {
	if err == nil {
		return "ok"
	}
	f := strings.Fields(err.Error())
	var out []string
	for _, w := range f {
		if strings.ContainsAny(w, "\"'#/{}[]0123456789%") {
			continue
		}
		out = append(out, w)
		if len(out) == 4 {
			break
		}
	}
	return strings.Join(out, " ")
}

var allKeywords = []string{"$id", "$schema", "$ref", "$comment", "$defs", "definitions", "dependencies", "$anchor", "$dynamicAnchor", "$dynamicRef", "$vocabulary", "title", "description", "default", "deprecated",
	"readOnly", "writeOnly", "examples", "type", "enum", "const", "multipleOf", "minimum", "maximum", "exclusiveMinimum", "exclusiveMaximum", "minLength", "maxLength", "pattern", "prefixItems", "items", "minItems", "maxItems",
	"additionalItems", "uniqueItems", "contains", "minContains", "maxContains", "unevaluatedItems", "minProperties", "maxProperties", "required", "dependentRequired", "properties", "patternProperties", "additionalProperties",
	"propertyNames", "unevaluatedProperties", "allOf", "anyOf", "oneOf", "not", "if", "then", "else", "dependentSchemas", "contentEncoding", "contentMediaType", "contentSchema", "format"}

var confusedValues = []string{`"#/allOf/9223372036854775808"`, `"#/allOf/18446744073709551615"`, `"#/prefixItems/18446744073709551616"`, `"#/anyOf/9223372036854775807"`, `"#/oneOf/99999999999999999999"`, `"#/not"`, `"#/items"`, `"#/then"`, `"#/properties/a"`, `"#/$defs/a/then"`, `"#/allOf/0"`, `"#/definitions/x"`, `"#/additionalProperties"`, `null`, `true`, `false`, `0`, `-1`, `1.5`, `1e400`, `-0`, `99999999999999999999`, `""`, `"x"`, `"#"`, `"("`, `[]`, `[null]`, `[1,"a",null,{}]`, `[[]]`, `{}`, `{"a":null}`, `{"a":{"a":null}}`,
	`{"":[]}`, `[true,false]`, `{"$ref":"#"}`, `[{"$ref":"#"}]`, `{"a":1,"a":2}`, `"\u0000"`, `2147483648`, `-2147483649`, `1.0`, `[0]`, `{"type":null}`}

func (p c10) Run(c *fw.Case) {
	if c.Idx%6 == 5 {
		failedCalls(c) // call history: failed calls before the case must leave nothing behind
	}
	switch k := c.Idx % 10; {
	case k < 4:
		p.bytesCase(c)
	case k < 7:
		p.structCase(c)
	case k < 9:
		p.typeCase(c)
	default:
		if c.Idx%20 == 9 {
			p.equalCase(c)
		} else {
			p.universeCase(c)
		}
	}
}

// universeCase: reference universes (loader documents forming chains, diamonds, cycles; anchors; faults) must
// resolve or fail with an error, and validate without panicking.
// mixedDraftPair: a root of one draft refers into a Loader document that explicitly declares the other draft, at a node that
// carries keywords of BOTH drafts side by side (each draft reads some of them as unknown keywords). Resolve reads the loaded
// document under its own draft, Validate runs under the root's: the two readings must still end in a verdict or an error.
func (p c10) mixedDraftPair(c *fw.Case) {
	r := c.R
	rootD7 := r.IntN(2) == 0
	rootSchema, docSchema := "", gen.Schema7URI
	if rootD7 {
		rootSchema, docSchema = gen.Schema7URI, gen.Schema2020URI
	} else if r.IntN(2) == 0 {
		rootSchema = gen.Schema2020URI
	}
	both := map[string]any{
		"$ref": "#/definitions/t", "$dynamicRef": "#/definitions/t", "$anchor": "own-an", "$dynamicAnchor": "own-dn", "$id": "#own-frag", // (names of its own: never the target of a reference, so no reference can close an in-place cycle, and no anchor is declared twice)
		"dependentSchemas": map[string]any{"a": false}, "dependencies": map[string]any{"a": []any{"b"}, "c": map[string]any{"$ref": "#/definitions/t"}},
		"prefixItems": []any{true, false}, "additionalItems": false, "items": []any{map[string]any{"$ref": "#/definitions/t"}},
		"unevaluatedProperties": false, "unevaluatedItems": map[string]any{"$dynamicRef": "#dn"}, "minContains": json.Number("0"), "contains": map[string]any{"$ref": "#an"},
		"dependentRequired": map[string]any{"a": []any{"b"}}, "definitions": map[string]any{"x": map[string]any{"$id": "#inner"}}, "$defs": map[string]any{"y": map[string]any{"$anchor": "inner2"}},
		"$recursiveRef": "#", "$recursiveAnchor": true,
	}
	node := map[string]any{}
	keys := sortedKeys(both)
	for _, i := range r.Perm(len(keys))[:r.IntN(4)] {
		node[keys[i]] = gen.Clone(both[keys[i]])
	}
	if r.IntN(10) < 7 {
		node["$ref"] = "#/definitions/t"
	}
	if r.IntN(2) == 0 {
		node["$dynamicRef"] = gen.Pick(r, []string{"#/definitions/t", "#dn", "#an"})
	}
	if _, isArr := node["items"].([]any); isArr && r.IntN(2) == 0 {
		node["items"] = map[string]any{"$ref": "#/definitions/t"}
	}
	// (a Schema may hold definitions or $defs, not both: the shared target lives under definitions only)
	doc := map[string]any{"$schema": docSchema, "definitions": map[string]any{"n": node, "t": map[string]any{"type": "string"}}}
	if r.IntN(4) > 0 {
		doc["definitions"].(map[string]any)["t"].(map[string]any)["$anchor"] = "an"
		doc["definitions"].(map[string]any)["t"].(map[string]any)["$dynamicAnchor"] = "dn"
	}
	root := map[string]any{"properties": map[string]any{"p": map[string]any{"$ref": "http://h/r.json#/definitions/n"}}}
	if rootSchema != "" {
		root["$schema"] = rootSchema
	}
	rootText, docText := gen.Text(root), gen.Text(doc)
	ld := &mapLoader{docs: map[string]string{"http://h/r.json": docText}}
	rs, err, ok := compileDoc(c, rootText, &jsonschema.ResolveOptions{BaseURI: "http://h/root.json", Loader: ld.load, ValidateDefaults: r.IntN(4) == 0})
	if !ok {
		return
	}
	c.Eval(1)
	c.Nontrivial("Resolve(mixed drafts)|" + errClass(err))
	if err != nil {
		return
	}
	for _, inst := range []any{map[string]any{"p": "abc"}, map[string]any{"p": 1.0}, map[string]any{"p": map[string]any{"a": 1.0}}, map[string]any{"p": []any{"x", 1.0}}, map[string]any{"p": map[string]any{"a": 1.0, "b": "s", "c": "t"}}, map[string]any{"p": []any{}}} {
		if !c.CallChecked("Validate", map[string]any{"root": json.RawMessage(rootText), "document": json.RawMessage(docText), "instance": gen.Describe(inst)}, func() { _ = rs.Validate(inst) }) {
			return
		}
		c.Eval(1)
	}
}

func (p c10) universeCase(c *fw.Case) {
	r := c.R
	if r.IntN(4) == 0 {
		p.mixedDraftPair(c)
		return
	}
	var root, base string
	var docs map[string]string
	var loadErr map[string]bool
	var markers []string
	if r.IntN(3) == 0 {
		u := gen.NewDynUniverse(r)
		root, base, docs, markers = u.Root, u.BaseURI, u.Docs, u.Markers
	} else {
		u := gen.NewUniverse(r, r.IntN(4) == 0)
		root, base, docs, loadErr, markers = u.Root, u.BaseURI, u.Docs, u.LoadErr, u.Markers
	}
	// mixed drafts: one Loader document explicitly declares the OTHER draft (its keywords are then read under that draft while
	// validation runs under the root's): whatever the two readings disagree about must end in a verdict or an error
	if len(docs) > 0 && r.IntN(4) == 0 {
		ks := sortedKeys(docs)
		k := ks[r.IntN(len(ks))]
		other := gen.Schema7URI
		if strings.Contains(root, gen.Schema7URI) {
			other = gen.Schema2020URI
		}
		if strings.HasPrefix(docs[k], "{") && !strings.Contains(docs[k], `"$schema"`) {
			nd := map[string]string{}
			for kk, vv := range docs {
				nd[kk] = vv
			}
			nd[k] = `{"$schema":"` + other + `",` + strings.TrimPrefix(docs[k], "{")
			if nd[k] == `{"$schema":"`+other+`",}` {
				nd[k] = `{"$schema":"` + other + `"}`
			}
			docs = nd
		}
	}
	// hostile twist: point some reference at a keyword location that may be absent / not a schema
	twisted := false
	if r.IntN(3) == 0 {
		twisted = true
		root = strings.Replace(root, `"$ref":"`, `"$ref":"`+gen.Pick(r, []string{"#/not", "#/items", "#/then", "#/properties", "#/$defs/t0/not", "#/additionalProperties/not", "#/contains/if", "#/else"})+`","x-was":"`, 1)
	}
	ld := &mapLoader{docs: docs, fail: loadErr}
	opts := &jsonschema.ResolveOptions{BaseURI: base, Loader: ld.load}
	rs, err, ok := compileDoc(c, root, opts)
	if !ok {
		return
	}
	c.Eval(1)
	c.Nontrivial("Resolve(universe)|" + errClass(err))
	if err != nil {
		return
	}
	// a twisted reference that DOES resolve may close an in-place reference cycle ("else": {"$ref": "#/else"}), which is
	// outside the property's domain: Validate is then decided only if the reference model evaluates the same pair
	var guard *refmodel.Model
	if twisted {
		uu := &refmodel.Universe{Draft: refmodel.D2020, BaseURI: base, Root: gen.Parse(root), Docs: map[string]any{}}
		if strings.Contains(root, gen.Schema7URI) {
			uu.Draft = refmodel.D7
		}
		for k, v := range docs {
			uu.Docs[k] = gen.Parse(v)
		}
		m, err := refmodel.Build(uu)
		if err != nil {
			c.Count("not_decided_twisted_universe_model_refuses", 1)
			return
		}
		m.MaxSteps = 20000
		guard = m
	}
	for k := 0; k < 3 && len(markers) > 0; k++ {
		inst := map[string]any{gen.Pick(r, []string{"p0", "p1", "d1", "e1", "h"}): gen.Pick(r, markers)}
		if guard != nil {
			if _, err := guard.Validate(gen.Parse(gen.Text(inst))); err != nil {
				c.Count("not_decided_possible_inplace_cycle", 1)
				continue
			}
		}
		if _, ok := validate(c, rs, root, inst, gen.Describe(inst)); !ok {
			return
		}
		c.Eval(1)
	}
}

// decideable reports whether Validate may be decided for (schema text, instance): no in-place cycle.
func decideable(hasRefs bool, text string, draft7 bool, instText string) bool {
	if !hasRefs {
		return true
	}
	if draft7 && strings.Contains(text, "$dynamicRef") {
		// the package follows $dynamicRef under draft-07 too (where the keyword has no meaning); the draft-07
		// model would not see a cycle through it, so such inputs are not decided
		return false
	}
	doc, err := refmodel.DecodeJSON([]byte(text))
	if err != nil {
		return false
	}
	d := refmodel.D2020
	if draft7 {
		d = refmodel.D7
	}
	m, err := refmodel.Build(&refmodel.Universe{Draft: d, Root: doc})
	if err != nil {
		return false
	}
	m.MaxSteps = 20000
	inst, err := refmodel.DecodeJSON([]byte(instText))
	if err != nil {
		return false
	}
	_, err = m.Validate(inst)
	return err == nil
}

func (c10) exercise(c *fw.Case, rs *jsonschema.Resolved, schemaText string, hasRefs, draft7 bool, what string) {
	r := c.R
	var parsed any
	if json.Valid([]byte(schemaText)) {
		parsed = gen.Parse(schemaText)
	}
	for k := 0; k < 5; k++ {
		im := gen.Value(r, gen.ValueOpts{MaxDepth: 3, BigInts: true, MaxLen: 3}, 0)
		switch {
		case k == 3 && r.IntN(2) == 0:
			im = gen.LongValue(r) // size stress: 63..257 items / properties
		case k == 4:
			if _, isObj := parsed.(map[string]any); !isObj {
				continue
			}
			im = gen.Instances(r, parsed, 1, false)[0] // schema-directed (reaches past the first type check)
		}
		itext := gen.Text(im)
		if !decideable(hasRefs, schemaText, draft7, itext) {
			c.Count("not_decided_possible_inplace_cycle", 1)
			continue
		}
		var tr gen.ReprTrace
		inst := gen.Repr(r, im, gen.ReprOpts{}, &tr)
		desc := gen.Describe(inst)
		var err error
		if !c.CallChecked("Validate", map[string]any{"schema": json.RawMessage(jsonOrString(schemaText)), "instance": desc, "source": what}, func() { err = rs.Validate(inst) }) {
			return
		}
		c.Eval(1)
		if err != nil || len(tr.Kinds) > 0 {
			c.Nontrivial("Validate|" + errClass(err))
		}
		holder := inst
		if !c.CallChecked("ApplyDefaults", map[string]any{"schema": json.RawMessage(jsonOrString(schemaText)), "instance": desc, "source": what}, func() { err = rs.ApplyDefaults(&holder) }) {
			return
		}
		c.Eval(1)
		if err != nil {
			c.Nontrivial("ApplyDefaults|" + errClass(err))
		}
	}
	// nil maps (the zero value of every map variable) where an object is expected, at the top and inside: ApplyDefaults may fill
	// them or refuse, Validate sees null; neither may panic
	if r.IntN(3) == 0 && !hasRefs {
		for k := 0; k < 3; k++ {
			var err error
			var desc string
			var apply func()
			switch k {
			case 0:
				var m map[string]any
				desc, apply = "nil map[string]any (pointer to it)", func() { err = rs.ApplyDefaults(&m) }
			case 1:
				m := map[string]map[string]any{"a": nil, "b": nil}
				desc, apply = "map[string]map[string]any with nil members", func() { err = rs.ApplyDefaults(&m) }
			default:
				var x any = map[string]any(nil)
				desc, apply = "any holding a nil map", func() { err = rs.ApplyDefaults(&x) }
			}
			if !c.CallChecked("ApplyDefaults", map[string]any{"schema": json.RawMessage(jsonOrString(schemaText)), "instance": desc, "source": what}, apply) {
				return
			}
			c.Eval(1)
			c.Nontrivial("ApplyDefaults(nil map)|" + errClass(err))
		}
		var nm map[string]any
		if !c.CallChecked("Validate", map[string]any{"schema": json.RawMessage(jsonOrString(schemaText)), "instance": "nil map[string]any", "source": what}, func() { _ = rs.Validate(nm) }) {
			return
		}
		c.Eval(1)
	}
	// JSON numbers that no Go number can hold / malformed json.Number texts: decided (must return, with an error or not)
	if r.IntN(4) == 0 && !hasRefs {
		for _, inst := range []any{json.Number("1e9999999"), json.Number("-1e9999999"), []any{json.Number("1e9999999"), json.Number("1e9999999")}, map[string]any{"a": json.Number("1E400")}, json.Number("abc"), json.Number(""), []any{json.Number("0x10"), json.Number("1")}} {
			var err error
			if !c.CallChecked("Validate", map[string]any{"schema": json.RawMessage(jsonOrString(schemaText)), "instance": gen.Describe(inst), "source": what}, func() { err = rs.Validate(inst) }) {
				return
			}
			c.Eval(1)
			c.Nontrivial("Validate(json.Number edge)|" + errClass(err))
			holder := inst
			if !c.CallChecked("ApplyDefaults", map[string]any{"schema": json.RawMessage(jsonOrString(schemaText)), "instance": gen.Describe(inst), "source": what}, func() { err = rs.ApplyDefaults(&holder) }) {
				return
			}
			c.Eval(1)
		}
	}
	// non-JSON kinds: executed and counted, not decided (outside the stated domain)
	if r.IntN(4) == 0 && !hasRefs { // (with references an in-place cycle cannot be excluded for these instances)
		type st struct{ A int }
		for _, inst := range []any{make(chan int), func() {}, complex(1, 2), st{1}, &st{2}, map[string]st{"a": {1}}, map[string]*st{"a": {1}}, map[int]string{1: "a"}, []any{func() {}, func() {}}, map[string]any{"a": make(chan int)}, []byte("ab"), [](chan int){nil}} {
			o := fw.Call(func() { _ = rs.Validate(inst) })
			if o.Panicked {
				c.Count("nonjson_instance_panics(not decided)", 1)
			} else {
				c.Count("nonjson_instance_calls_returned", 1)
			}
			holder := inst
			o = fw.Call(func() { _ = rs.ApplyDefaults(&holder) })
			if o.Panicked {
				c.Count("nonjson_applydefaults_panics(not decided)", 1)
			} else {
				c.Count("nonjson_applydefaults_calls_returned", 1)
			}
		}
	}
}

func jsonOrString(text string) string {
	if json.Valid([]byte(text)) {
		return text
	}
	b, _ := json.Marshal(text)
	return string(b)
}

func (p c10) bytesCase(c *fw.Case) {
	r := c.R
	var text string
	switch k := r.IntN(5); {
	case r.IntN(25) == 0:
		// a pointer reference whose array index sits around 2^31 / 2^63 / 2^64 (or is a valid small one), into an existing array
		kw := gen.Pick(r, []string{"allOf", "anyOf", "oneOf", "prefixItems"})
		idx := gen.Pick(r, []string{"0", "1", "2", "2147483647", "2147483648", "4294967295", "4294967296", "9223372036854775807", "9223372036854775808", "9223372036854775809",
			"18446744073709551614", "18446744073709551615", "18446744073709551616", "18446744073709551617", "36893488147419103232", "99999999999999999999999999", "-1", "-9223372036854775808"})
		text = `{"$ref":"#/` + kw + `/` + idx + `","` + kw + `":[true,{"type":"integer"}]}`
		if r.IntN(3) == 0 {
			text = `{"properties":{"a":{"$ref":"#/$defs/d/` + kw + `/` + idx + `"}},"$defs":{"d":{"` + kw + `":[true,{"type":"integer"}]}}}`
		}
	case r.IntN(25) == 0:
		// a leaf under 7..129 levels of single-branch applicators: one evaluation per level, whatever the verdict
		nest, _ := gen.DeepNest(r)
		text = gen.Text(nest)
		if r.IntN(2) == 0 {
			text = gen.Text(map[string]any{"properties": map[string]any{"a": nest}, "items": nest})
		}
	case k <= 1:
		text = gen.Pick(r, suiteSchemas())
	case k == 2:
		text = gen.Text(gen.Schema(r, gen.SchemaOpts{Draft: gen.Draft(r.IntN(2)), MaxDepth: 3, Refs: true, Uneval: true}))
	case k == 3: // every keyword x every JSON type
		m := map[string]json.RawMessage{}
		for k := 1 + r.IntN(3); k > 0; k-- {
			m[gen.Pick(r, allKeywords)] = json.RawMessage(gen.Pick(r, confusedValues))
		}
		var sb strings.Builder
		sb.WriteString("{")
		first := true
		for _, k := range sortedKeys(m) {
			if !first {
				sb.WriteString(",")
			}
			first = false
			kb, _ := json.Marshal(k)
			sb.Write(kb)
			sb.WriteString(":")
			sb.Write(m[k])
		}
		sb.WriteString("}")
		text = sb.String()
		if r.IntN(4) == 0 { // give array-indexing pointers something to index
			text = strings.TrimSuffix(text, "}")
			if len(m) > 0 {
				text += ","
			}
			text += `"allOf":[true,{"type":"integer"}],"prefixItems":[true],"anyOf":[true],"oneOf":[true]}`
			if _, dup := m["allOf"]; dup {
				text = sb.String()
			}
		}
		if r.IntN(3) == 0 { // nested below an applicator
			text = `{"` + gen.Pick(r, []string{"not", "items", "additionalProperties", "if", "contains", "propertyNames"}) + `":` + text + `}`
		}
	default: // deep nesting
		depth := 1 + r.IntN(600)
		kw := gen.Pick(r, []string{`{"not":`, `{"items":`, `{"allOf":[`, `{"properties":{"a":`, `[`, `{"$defs":{"x":`})
		closer := map[string]string{`{"not":`: `}`, `{"items":`: `}`, `{"allOf":[`: `]}`, `{"properties":{"a":`: `}}`, `[`: `]`, `{"$defs":{"x":`: `}}`}[kw]
		text = strings.Repeat(kw, depth) + gen.Pick(r, []string{"true", "{}", "null", "1"}) + strings.Repeat(closer, depth)
	}
	// byte-level corruption
	b := []byte(text)
	for k := r.IntN(4); k > 0 && len(b) > 0; k-- {
		switch r.IntN(6) {
		case 0:
			b = b[:r.IntN(len(b))] // truncate
		case 1:
			i := r.IntN(len(b))
			b[i] = byte(r.IntN(256))
		case 2:
			i := r.IntN(len(b))
			b = append(b[:i], b[min(len(b), i+1+r.IntN(4)):]...)
		case 3:
			i := r.IntN(len(b))
			ins := gen.Pick(r, []string{`null`, `{`, `}`, `[`, `"`, `,`, `:`, `\`, `\u0000`, `1e999`, `-`, `{"$ref":"#"}`, "\xff\xfe", `""`})
			b = append(b[:i], append([]byte(ins), b[i:]...)...)
		case 4:
			if i := strings.IndexByte(string(b), ':'); i > 0 { // replace a value
				j := i + 1 + r.IntN(len(b)-i)
				b = append(append(append([]byte{}, b[:i+1]...), []byte(gen.Pick(r, confusedValues))...), b[min(j, len(b)):]...)
			}
		default:
			// swap two bytes
			i, j := r.IntN(len(b)), r.IntN(len(b))
			b[i], b[j] = b[j], b[i]
		}
	}
	if len(b) > 65536 {
		b = b[:65536]
	}
	text = string(b)
	var s jsonschema.Schema
	var err error
	if !c.CallChecked("Unmarshal", map[string]any{"bytes": text}, func() { err = json.Unmarshal(b, &s) }) {
		return
	}
	c.Eval(1)
	c.Nontrivial("Unmarshal|" + errClass(err))
	if err != nil {
		return
	}
	var rs *jsonschema.Resolved
	hasRefs := strings.Contains(text, "$ref") || strings.Contains(text, "$dynamicRef") || strings.Contains(text, "Ref")
	// ValidateDefaults evaluates defaults: with references an in-place cycle cannot be excluded (outside the proviso)
	opts := &jsonschema.ResolveOptions{ValidateDefaults: r.IntN(2) == 0 && !hasRefs}
	if r.IntN(2) == 0 {
		opts.BaseURI = gen.Pick(r, []string{"http://h/x.json", "urn:x", "%zz", "relative/path", "http://h/x#frag", "http://[::1"})
	}
	if !c.CallChecked("Resolve", map[string]any{"bytes": text, "base_uri": opts.BaseURI, "validate_defaults": opts.ValidateDefaults}, func() { rs, err = s.Resolve(opts) }) {
		return
	}
	c.Eval(1)
	c.Nontrivial("Resolve|" + errClass(err))
	if err != nil {
		return
	}
	d7 := strings.Contains(text, "draft-07")
	if opts.BaseURI != "" && hasRefs {
		return // the model would need the same base; keep the decision simple
	}
	p.exercise(c, rs, text, hasRefs, d7, "bytes")
	if c.Idx%6000 == 0 {
		c.Sample(map[string]any{"kind": "bytes", "bytes": text})
	}
}

func hasAnyRef(s *jsonschema.Schema, seen map[*jsonschema.Schema]bool) bool {
	if s == nil || seen[s] {
		return false
	}
	seen[s] = true
	if s.Ref != "" || s.DynamicRef != "" {
		return true
	}
	v := reflect.ValueOf(s).Elem()
	for i := 0; i < v.NumField(); i++ {
		switch x := v.Field(i).Interface().(type) {
		case *jsonschema.Schema:
			if hasAnyRef(x, seen) {
				return true
			}
		case []*jsonschema.Schema:
			for _, k := range x {
				if hasAnyRef(k, seen) {
					return true
				}
			}
		case map[string]*jsonschema.Schema:
			for _, k := range x {
				if hasAnyRef(k, seen) {
					return true
				}
			}
		}
	}
	return false
}

// isTree reports whether the Schema graph is a tree (no shared pointers, no cycles, no nil children).
func isTree(s *jsonschema.Schema, seen map[*jsonschema.Schema]bool) bool {
	if s == nil || seen[s] {
		return false
	}
	seen[s] = true
	v := reflect.ValueOf(s).Elem()
	for i := 0; i < v.NumField(); i++ {
		switch x := v.Field(i).Interface().(type) {
		case *jsonschema.Schema:
			if x != nil && !isTree(x, seen) {
				return false
			}
		case []*jsonschema.Schema:
			for _, k := range x {
				if !isTree(k, seen) {
					return false
				}
			}
		case map[string]*jsonschema.Schema:
			for _, k := range x {
				if !isTree(k, seen) {
					return false
				}
			}
		}
	}
	return true
}

func (p c10) structCase(c *fw.Case) {
	r := c.R
	if r.IntN(40) == 0 {
		// a Schema value inside a keyword that holds ARBITRARY values (examples, enum, const) of a Schema built in Go, and a
		// pointer reference that leads to it: not a subschema. Resolve may refuse or accept; nothing may panic afterwards.
		inner := &jsonschema.Schema{Type: gen.Pick(r, gen.TypeNames)}
		holder := &jsonschema.Schema{}
		ptr := ""
		switch r.IntN(3) {
		case 0:
			holder.Examples = []any{"x", inner}
			ptr = "#/examples/1"
		case 1:
			holder.Enum = []any{inner, 1.0}
			ptr = "#/enum/0"
		default:
			var cv any = inner
			holder.Const = &cv
			ptr = "#/const"
		}
		root := holder
		if r.IntN(2) == 0 {
			holder.Properties = map[string]*jsonschema.Schema{"a": {Ref: ptr}}
		} else {
			holder.Ref = ptr
		}
		var rs *jsonschema.Resolved
		var err error
		in := map[string]any{"schema_go": "Schema holding a *Schema in a value keyword", "reference": ptr}
		if !c.CallChecked("Resolve", in, func() { rs, err = root.Resolve(nil) }) {
			return
		}
		c.Eval(1)
		c.Nontrivial("Resolve(non-subschema pointer)|" + errClass(err))
		if err == nil {
			for _, inst := range []any{1.0, "x", map[string]any{"a": "x"}, map[string]any{"a": 1.0}, nil} {
				if !c.CallChecked("Validate", in, func() { _ = rs.Validate(inst) }) {
					return
				}
				c.Eval(1)
			}
		}
		return
	}
	s := gen.SchemaStruct(r, &gen.StructOpts{Hostile: true, MaxDepth: 3, PropOrder: true})
	tree := isTree(s, map[*jsonschema.Schema]bool{})
	desc := "hostile Schema value"
	// loader behaviours
	var other jsonschema.Schema
	json.Unmarshal([]byte(`{"$id":"http://elsewhere/o.json","$ref":"http://h/root.json","$defs":{"a":{"$ref":"http://elsewhere/o.json"}}}`), &other)
	shared := &jsonschema.Schema{Type: "string"}
	loaders := []jsonschema.Loader{
		nil,
		func(u *url.URL) (*jsonschema.Schema, error) { return nil, fmt.Errorf("injected fault for %s", u) },
		func(u *url.URL) (*jsonschema.Schema, error) { return nil, nil }, // neither a schema nor an error
		func(u *url.URL) (*jsonschema.Schema, error) {
			var d jsonschema.Schema
			json.Unmarshal([]byte(`{"$id":"http://another/uri.json","type":"integer"}`), &d)
			return &d, nil
		},
		func(u *url.URL) (*jsonschema.Schema, error) { // self-referential universe
			var d jsonschema.Schema
			json.Unmarshal([]byte(`{"$ref":"`+u.String()+`","properties":{"a":{"$ref":"next.json"},"b":{"$ref":"#"}}}`), &d)
			return &d, nil
		},
		func(u *url.URL) (*jsonschema.Schema, error) { return shared, nil }, // the same pointer every time
		func(u *url.URL) (*jsonschema.Schema, error) { return s, nil },      // the root itself
		func(u *url.URL) (*jsonschema.Schema, error) { c := other; return &c, nil },
	}
	loaderIdx := r.IntN(len(loaders))
	opts := &jsonschema.ResolveOptions{Loader: loaders[loaderIdx], ValidateDefaults: r.IntN(2) == 0}
	if r.IntN(2) == 0 {
		opts.BaseURI = gen.Pick(r, []string{"http://h/root.json", "urn:x:y", "%zz", "relative", "http://h/root.json#f", "file:///a/b"})
	}
	if r.IntN(5) == 0 && s.Ref == "" {
		s.Ref = gen.Pick(r, []string{"http://h/remote.json", "remote.json#/x", "http://h/remote.json#anchor", "other.json"})
	}
	if hasAnyRef(s, map[*jsonschema.Schema]bool{}) {
		// ValidateDefaults evaluates defaults against their subschemas: with references an in-place cycle
		// cannot be excluded, and that is outside the property's proviso
		opts.ValidateDefaults = false
	}
	var rs *jsonschema.Resolved
	var err error
	var useOpts *jsonschema.ResolveOptions = opts
	if r.IntN(8) == 0 {
		useOpts = nil
	}
	if !c.CallChecked("Resolve", map[string]any{"schema_go": fmt.Sprintf("%+v", s), "tree": tree}, func() { rs, err = s.Resolve(useOpts) }) {
		return
	}
	c.Eval(1)
	c.Nontrivial("Resolve(struct)|" + errClass(err))
	if tree {
		// (5) Marshal / CloneSchemas on acyclic hostile values
		var merr error
		var data []byte
		if !c.CallChecked("Marshal", desc, func() { data, merr = json.Marshal(s) }) {
			return
		}
		c.Eval(1)
		c.Nontrivial("Marshal|" + errClass(merr))
		if !c.CallChecked("CloneSchemas", desc, func() { _ = s.CloneSchemas() }) {
			return
		}
		c.Eval(1)
		hasRefs := hasAnyRef(s, map[*jsonschema.Schema]bool{})
		if err == nil && merr != nil && !hasRefs {
			// Resolve accepted a value Marshal refuses (numbers JSON cannot write, say): it still has to validate without panicking
			p.exercise(c, rs, desc+" that does not marshal: "+merr.Error(), false, s.Schema == gen.Schema7URI || s.Schema == gen.Schema7URIs, "struct")
		}
		if err == nil && merr == nil {
			// With references AND a loader that answers, a reference may leave the document (a relative BaseURI even turns
			// "#" into a remote URI) and come back through a loader document that refers to itself in place: outside the
			// proviso, and invisible to the single-document model used as guard. Decide only when no loader can answer.
			if hasRefs && useOpts != nil && loaderIdx >= 2 {
				c.Count("not_decided_refs_with_answering_hostile_loader", 1)
			} else {
				p.exercise(c, rs, string(data), hasRefs, s.Schema == gen.Schema7URI || s.Schema == gen.Schema7URIs, "struct")
			}
		}
	}
	if c.Idx%6000 == 4 {
		c.Sample(map[string]any{"kind": "hostile struct", "tree": tree, "resolve_error": fmt.Sprint(err)})
	}
}

func (c10) equalCase(c *fw.Case) {
	r := c.R
	a := gen.Repr(r, gen.Value(r, gen.ValueOpts{MaxDepth: 3, BigInts: true}, 0), gen.ReprOpts{}, nil)
	b := gen.Repr(r, gen.Value(r, gen.ValueOpts{MaxDepth: 3, BigInts: true}, 0), gen.ReprOpts{}, nil)
	if !c.CallChecked("Equal", map[string]any{"x": gen.Describe(a), "y": gen.Describe(b)}, func() { jsonschema.Equal(a, b); jsonschema.Equal(a, a) }) {
		return
	}
	c.Eval(1)
	c.Nontrivial("Equal|" + topKind(a) + "|" + topKind(b))
}

package props

import (
	"encoding/json"
	"reflect"

	"github.com/google/jsonschema-go/jsonschema"

	"verif/internal/fw"
	"verif/internal/gen"
)

// Call history. A library call must not depend on the calls made before it in the same process: results
// remembered per type, per document or in a pool must not leak from a call with other arguments, and a call
// that FAILED must leave nothing behind. The helpers below make such earlier calls (their results are thrown
// away); the deciding oracle of the check then runs as usual, so any leak shows as an ordinary violation.

// namedTypesIn collects the named types nested inside t (not t itself), in a deterministic order.
func namedTypesIn(t reflect.Type, out *[]reflect.Type, seen map[reflect.Type]bool, depth int, top bool) {
	if depth > 5 || seen[t] {
		return
	}
	seen[t] = true
	if !top && t.Name() != "" && t.PkgPath() != "" {
		*out = append(*out, t)
	}
	switch t.Kind() {
	case reflect.Pointer, reflect.Slice, reflect.Array, reflect.Map:
		namedTypesIn(t.Elem(), out, seen, depth+1, false)
	case reflect.Struct:
		for i := 0; i < t.NumField(); i++ {
			namedTypesIn(t.Field(i).Type, out, seen, depth+1, false)
		}
	}
}

// decoyInfer calls ForType on t with OTHER options than the case is about to use: TypeSchemas entries that
// retype up to three named types nested in t (and some unrelated ones), or IgnoreInvalidTypes.
func decoyInfer(c *fw.Case, t reflect.Type) {
	r := c.R
	var named []reflect.Type
	namedTypesIn(t, &named, map[reflect.Type]bool{}, 0, true)
	opts := &jsonschema.ForOptions{IgnoreInvalidTypes: r.IntN(3) == 0}
	if len(named) > 0 || r.IntN(2) == 0 {
		opts.TypeSchemas = map[reflect.Type]*jsonschema.Schema{}
		for k := 0; k < 3 && len(named) > 0; k++ {
			nt := gen.Pick(r, named)
			if nt.Kind() == reflect.Struct && r.IntN(2) == 0 {
				opts.TypeSchemas[nt] = &jsonschema.Schema{Type: "object", Properties: map[string]*jsonschema.Schema{"decoy": {Type: "boolean"}}}
			} else {
				opts.TypeSchemas[nt] = &jsonschema.Schema{Type: "string", Const: jsonschema.Ptr[any]("decoy")}
			}
		}
		for k := r.IntN(8); k > 0; k-- { // unrelated entries: the size of the table must not matter either
			opts.TypeSchemas[gen.Pick(r, decoyTypes)] = &jsonschema.Schema{Type: "boolean"}
		}
	}
	o := fw.Call(func() { _, _ = jsonschema.ForType(t, opts) })
	if o.Panicked {
		c.Count("decoy_infer_panics(not decided here)", 1)
	}
	c.Count("decoy_infer_calls", 1)
}

type (
	decoyA struct{ A int }
	decoyB []string
	decoyC map[string]int
	decoyD int
	decoyE string
	decoyF struct{ F float64 }
	decoyG bool
	decoyH [2]int
)

var decoyTypes = []reflect.Type{reflect.TypeFor[decoyA](), reflect.TypeFor[decoyB](), reflect.TypeFor[decoyC](), reflect.TypeFor[decoyD](), reflect.TypeFor[decoyE](), reflect.TypeFor[decoyF](), reflect.TypeFor[decoyG](), reflect.TypeFor[decoyH](), reflect.TypeFor[*decoyA](), reflect.TypeFor[[]decoyD]()}

// poisonDocs are documents Unmarshal must REJECT; they carry unknown keywords that must never show up anywhere else.
var poisonDocs = []string{
	`{"x-poison-a":"leak","minLength":1.5}`,
	`{"x-poison-b":{"n":1},"type":5}`,
	`{"properties":{"p":{"x-poison-c":[1,2],"maxItems":-1.5}},"x-poison-d":true}`,
	`{"x-poison-e":1,"required":"notalist"}`,
	`{"allOf":[{"x-poison-f":null,"minimum":"x"}]}`,
	`{"x-poison-g":1,"$defs":{"d":{"x-poison-h":2,"enum":3}}}`,
	`{"Title":"x-poison-i","title":7}`,
	`{"x-poison-j":1,"maxLength":1e99}`,
}

// failedCalls makes library calls that fail (rejected documents with unknown keywords, unresolvable references,
// an unsupported type, an invalid instance, defaults that cannot be applied) and throws the errors away.
func failedCalls(c *fw.Case) {
	r := c.R
	for k := 1 + r.IntN(3); k > 0; k-- {
		switch r.IntN(5) {
		case 0, 1:
			doc := gen.Pick(r, poisonDocs)
			var s jsonschema.Schema
			fw.Call(func() { _ = json.Unmarshal([]byte(doc), &s) })
		case 2:
			var s jsonschema.Schema
			if json.Unmarshal([]byte(`{"$ref":"#/$defs/missing","x-poison-k":1,"$defs":{"a":{"$ref":"http://nowhere.example/x.json"}}}`), &s) == nil {
				fw.Call(func() { _, _ = s.Resolve(nil) })
			}
		case 3:
			fw.Call(func() { _, _ = jsonschema.ForType(reflect.TypeFor[struct{ C chan int }](), nil) })
		default:
			var s jsonschema.Schema
			if json.Unmarshal([]byte(`{"type":"object","properties":{"a":{"type":"integer","default":"notanint"}},"required":["b"]}`), &s) == nil {
				if rs, err := s.Resolve(nil); err == nil {
					fw.Call(func() { _ = rs.Validate(map[string]any{"a": "x"}) })
					inst := map[string]any{}
					fw.Call(func() { _ = rs.ApplyDefaults(&inst) })
				}
			}
		}
	}
	c.Count("failed_calls_before_the_case", 1)
}

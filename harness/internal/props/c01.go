package props

import (
	"encoding/json"
	"fmt"

	"github.com/google/jsonschema-go/jsonschema"

	"verif/internal/fw"
	"verif/internal/gen"
	"verif/internal/refmodel"
)

// C01: Validate decides exactly the draft 2020-12 validity relation.
type c01 struct{}

func init() { register(c01{}) }

func (c01) ID() string { return "C01" }
func (c01) Cases(t fw.Tier) int {
	return tierN(t, 40000, 1200000)
}
func (c01) Rule() string {
	return "each case generates a draft 2020-12 schema document (raw JSON, sent through Schema.UnmarshalJSON and Resolve) with the grouped keyword generator: 2-4 keywords of one interaction group " +
		"(object / array / numeric / string / generic / logic) plus 0-2 others per schema object, subschemas inheriting the parent's group with p=0.6, boolean schemas at every position, depth<=4, " +
		"$defs + $ref by pointer / $anchor / '#' (recursion only below instance-descending keywords), unevaluated*; atoms from small shared pools (names, patterns, float64-exact numbers, multipleOf dyadic). " +
		"16 instances per schema: schema-directed boundary candidates, perturbations, free pool values; every 8th case instead uses the dedicated unevaluated* generator of C07 with its exhaustive instance pool. Oracle: independent reference model on the same raw documents (exact rationals), self-tested against the official suite. " +
		"Non-trivial: the model evaluated >=2 different keywords on the case; distinct by (set of keyword:outcome pairs evaluated, verdict)."
}
func (c01) Assumptions() []string {
	return []string{"reference model (internal/refmodel) = specification on the generated domain; it replays the official 2020-12 and draft-07 suites (2,012 cases) in its unit tests and agreed with python jsonschema on ~96k random pairs",
		"patterns come from a pool inside the common RE2 subset; format/content keywords never assert (documented deviation)",
		"multipleOf operands are dyadic rationals with quotient below 2^53; integer keywords are small non-negative integers"}
}

func (c01) Run(c *fw.Case) {
	if c.Idx%6 == 5 {
		failedCalls(c) // call history: failed calls before the case must leave nothing behind
	}
	r := c.R
	if c.Idx%8 == 7 {
		// the dedicated unevaluated* workload (C07's generator): $ref / $dynamicRef to definitions whose applicators
		// evaluate different subsets of a tiny pool, with an exhaustive instance pool
		doc, array := gen.UnevalSchema(r)
		mc := &modelCase{draft: refmodel.D2020, rootText: gen.Text(doc)}
		m, rs, _, ok := mc.build(c)
		if !ok {
			return
		}
		var ts traceStats
		m.Trace = ts.hook()
		for _, im := range append(gen.UInstances(array), gen.ULongInstances(r, array, 3)...) {
			if valid, decided := mc.compare(c, m, rs, im, &ts, "draft 2020-12 (unevaluated* workload)"); decided {
				if key, nt := ts.summarize(c, valid); nt {
					c.Nontrivial(key)
				}
			}
		}
		return
	}
	focus := ""
	if c.Idx%3 == 0 {
		focus = gen.Pick(r, []string{"object", "array", "numeric", "string", "generic", "logic"})
	}
	names := gen.Names
	if c.Idx%2 == 0 {
		names = gen.Names[:4] // a small name pool makes cousins talk about the same properties
	}
	doc := gen.Schema(r, gen.SchemaOpts{Draft: gen.D2020, MaxDepth: 2 + r.IntN(3), Refs: r.IntN(2) == 0, Uneval: r.IntN(3) > 0, Focus: focus, Names: names})
	if m, ok := doc.(map[string]any); ok && r.IntN(4) == 0 {
		m["$schema"] = gen.Schema2020URI
	}
	mc := &modelCase{draft: refmodel.D2020, rootText: gen.Text(doc)}
	m, rs, _, ok := mc.build(c)
	if !ok {
		return
	}
	var ts traceStats
	m.Trace = ts.hook()
	for _, im := range gen.Instances(r, doc, 16, false, names...) {
		valid, decided := mc.compare(c, m, rs, im, &ts, "draft 2020-12")
		if !decided {
			continue
		}
		if key, nt := ts.summarize(c, valid); nt {
			c.Nontrivial(key)
		}
	}
	if c.Idx%1500 == 0 {
		c.Sample(map[string]any{"schema": json.RawMessage(mc.rootText)})
	}
}

// Pinned known finding KF-C01-1: multipleOf decides by a float64 quotient, which rounds to an integer
// when the true quotient is a non-integer of magnitude >= 2^52 (here 2^53/1.5 = 6004799503160661.33...).
func (c01) RunKnown(id string) (bool, string, error) {
	if id != "KF-C01-1" {
		return false, "", fmt.Errorf("unknown known-finding id %s", id)
	}
	var s jsonschema.Schema
	if err := json.Unmarshal([]byte(`{"multipleOf":1.5}`), &s); err != nil {
		return false, "", err
	}
	rs, err := s.Resolve(nil)
	if err != nil {
		return false, "", err
	}
	var inst any
	if err := json.Unmarshal([]byte(`9007199254740992`), &inst); err != nil {
		return false, "", err
	}
	if rs.Validate(inst) == nil {
		return true, "{multipleOf:1.5} accepts 9007199254740992 (quotient 6004799503160661.33 rounds to an integer in float64)", nil
	}
	return false, "", nil
}

func (c01) Finalize(a *fw.Agg, t fw.Tier) { keywordCoverage(a, false) }

package props

import (
	"encoding/json"
	"fmt"
	"github.com/google/jsonschema-go/jsonschema"
	"strings"

	"verif/internal/fw"
	"verif/internal/gen"
	"verif/internal/refmodel"
)

// C18: non-asserting and unknown keywords never change a verdict.
type c18 struct{}

func init() { register(c18{}) }

func (c18) ID() string { return "C18" }
func (c18) Cases(t fw.Tier) int {
	return tierN(t, 25000, 600000)
}
func (c18) Rule() string {
	return "each case generates a schema document S (either draft; grouped generator with refs and unevaluated*) and 12 instances, then 5 decorated variants of S: at 1-4 random subschema positions one of " +
		"(i) a documented non-asserting keyword with a well-typed value chosen to bite if it asserted (format the instance violates, contentSchema:false, contentEncoding, default/examples that are invalid, title/description/$comment, " +
		"deprecated/readOnly/writeOnly, unreferenced $defs/definitions entries that are false), (ii) an unknown keyword with any JSON value (random identifiers, x-..., names of older drafts, values containing $id/$anchor look-alikes), " +
		"(iii) a case variant of a standard keyword (Minimum, TYPE, additionalproperties, ...) with a reject-everything value. Unmarshal must accept every variant and every verdict must equal the undecorated one. " +
		"Non-trivial: the decorated node lies on the evaluation path of the instance (per the reference model's trace) and the inserted value would reject it if the keyword asserted; distinct by (decoration keyword, value type, depth)."
}
func (c18) Assumptions() []string {
	return []string{"known non-asserting keywords get well-typed values only (\"title\": 5 is a legitimate Unmarshal error)",
		"names of the other supported draft are not used as 'unknown' keywords; decorations never introduce $id/$anchor at schema level",
		"the reference model is used only to measure whether a decoration sat on the evaluation path, not to decide"}
}

type decoration struct {
	key   string
	value any
	class string
}

var caseVariants = []decoration{
	{"Minimum", json.Number("1e9"), "case"}, {"MINIMUM", json.Number("1e9"), "case"}, {"TYPE", "null", "case"}, {"Type", []any{}, "case"}, {"Required", []any{"zz-never"}, "case"},
	{"REQUIRED", []any{"zz-never"}, "case"}, {"Enum", []any{}, "case"}, {"ENUM", []any{"zz-never"}, "case"}, {"Const", "zz-never", "case"}, {"Not", map[string]any{}, "case"}, {"NOT", true, "case"},
	{"MAXLENGTH", json.Number("0"), "case"}, {"MaxLength", json.Number("0"), "case"}, {"maxlength", json.Number("0"), "case"}, {"MaxItems", json.Number("0"), "case"}, {"maxitems", json.Number("0"), "case"},
	{"MAXPROPERTIES", json.Number("0"), "case"}, {"maxproperties", json.Number("0"), "case"}, {"additionalproperties", false, "case"}, {"AdditionalProperties", false, "case"},
	{"Items", false, "case"}, {"ITEMS", false, "case"}, {"AllOf", []any{false}, "case"}, {"allof", []any{false}, "case"}, {"AnyOf", []any{false}, "case"}, {"oneof", []any{}, "case"},
	{"Pattern", "^zz-never$", "case"}, {"PATTERN", "^zz-never$", "case"}, {"MultipleOf", json.Number("1e9"), "case"}, {"exclusiveminimum", json.Number("1e9"), "case"},
	{"UniqueItems", true, "case"}, {"Contains", false, "case"}, {"PropertyNames", false, "case"}, {"propertynames", false, "case"}, {"UnevaluatedProperties", false, "case"},
	{"unevaluatedproperties", false, "case"}, {"UnevaluatedItems", false, "case"}, {"Properties", map[string]any{"a": false, "b": false, "": false}, "case"}, {"PatternProperties", map[string]any{"": false}, "case"},
	{"If", true, "case"}, {"Then", false, "case"}, {"THEN", false, "case"}, {"Else", false, "case"}, {"DependentRequired", map[string]any{"a": []any{"zz-never"}}, "case"}, {"Dependencies", map[string]any{"a": false}, "case"},
	{"$Ref", "#/nowhere", "case"}, {"$REF", "#/nowhere", "case"}, {"$Id", "http://elsewhere/x#frag", "case"}, {"$ANCHOR", "A0", "case"}, {"$DynamicRef", "#nowhere", "case"}, {"MinContains", json.Number("99"), "case"},
	{"Title", json.Number("5"), "case"}, {"TITLE", []any{}, "case"}, {"Description", false, "case"}, {"Default", nil, "case"}, {"Format", json.Number("1"), "case"}, {"$Schema", "x", "case"}, {"$SCHEMA", json.Number("7"), "case"},
	{"$Defs", []any{}, "case"}, {"DEFINITIONS", "x", "case"}, {"Examples", "notalist", "case"}, {"Deprecated", "yes", "case"}, {"ReadOnly", json.Number("1"), "case"}, {"$Comment", map[string]any{}, "case"},
	{"MinLength", "x", "case"}, {"MinItems", "x", "case"}, {"minproperties", []any{}, "case"}, {"ContentSchema", false, "case"}, {"$Vocabulary", "x", "case"}, {"PrefixItems", []any{false}, "case"}, {"AdditionalItems", false, "case"},
}

// encoding/json folds with Unicode simple case folding, under which U+017F (long s) equals "s" and U+212A (Kelvin sign)
// equals "k": spellings of standard keywords with those letters are unknown keywords too.
func init() {
	for _, kv := range []decoration{
		{"item\u017f", false, "case"}, {"minItem\u017f", json.Number("99"), "case"}, {"maxItem\u017f", json.Number("0"), "case"}, {"propertie\u017f", json.Number("17"), "case"},
		{"patternPropertie\u017f", map[string]any{"": false}, "case"}, {"con\u017ft", "zz-never", "case"}, {"el\u017fe", false, "case"}, {"$\u017fchema", "x", "case"},
		{"dependentSchema\u017f", map[string]any{"a": false}, "case"}, {"uniqueItem\u017f", "yes", "case"}, {"contain\u017f", false, "case"}, {"example\u017f", "notalist", "case"},
		{"de\u017fcription", json.Number("5"), "case"}, {"minPropertie\u017f", json.Number("99"), "case"}, {"prefixItem\u017f", []any{false}, "case"}, {"additionalItem\u017f", false, "case"},
		{"additionalPropertie\u017f", false, "case"}, {"unevaluatedItem\u017f", false, "case"}, {"unevaluatedPropertie\u017f", false, "case"}, {"propertyName\u017f", false, "case"},
		{"$def\u017f", json.Number("5"), "case"}, {"definition\u017f", "x", "case"}, {"dependencie\u017f", map[string]any{"a": false}, "case"}, {"ITEM\u017f", false, "case"},
	} {
		caseVariants = append(caseVariants, kv)
	}
}

var unknownNames = []string{"x-a", "x-nullable", "zzz", "foo_bar", "$recursiveRef", "$recursiveAnchor", "id", "extends", "divisibleBy", "disallow", "nullable", "discriminator", "xml", "example", "$unknown", "then ", " type", "type ", "min imum"}

func (c18) decorations(c *fw.Case, draft gen.Draft) []decoration {
	r := c.R
	n := 1 + r.IntN(4)
	out := make([]decoration, n)
	for i := range out {
		switch k := r.IntN(10); {
		case k < 4:
			out[i] = gen.Pick(r, caseVariants)
		case k < 7:
			var v any
			switch r.IntN(4) {
			case 0:
				v = map[string]any{"$id": "http://elsewhere/x.json", "$anchor": "A0", "$ref": "#/nowhere", "type": "null"}
			case 1:
				v = false
			default:
				v = gen.Value(r, gen.ValueOpts{MaxDepth: 2, MaxLen: 2}, 0)
			}
			out[i] = decoration{gen.Pick(r, unknownNames), v, "unknown"}
		default:
			defsKW := "$defs"
			if draft == gen.D7 {
				defsKW = "definitions"
			}
			out[i] = gen.Pick(r, []decoration{
				{"title", "t", "meta"}, {"description", "d", "meta"}, {"$comment", "c", "meta"},
				{"default", gen.Value(r, gen.ValueOpts{MaxDepth: 2, MaxLen: 2}, 0), "meta"}, {"examples", []any{gen.Value(r, gen.ValueOpts{MaxDepth: 1, MaxLen: 2}, 0), nil}, "meta"},
				{"deprecated", true, "meta"}, {"readOnly", true, "meta"}, {"writeOnly", true, "meta"},
				{"format", gen.Pick(r, []string{"email", "date-time", "ipv4", "uri", "uuid", "regex", "zz-unknown-format"}), "format"},
				{"contentEncoding", "base64", "content"}, {"contentMediaType", "application/json", "content"},
				{"contentSchema", gen.Pick(r, []any{false, map[string]any{"type": "null"}, map[string]any{"not": map[string]any{}}}), "content"},
				{defsKW, map[string]any{"zz_unreferenced": false, "zz_unreferenced2": map[string]any{"type": "null"}}, "defs"},
			})
		}
	}
	return out
}

func ptrEscape(s string) string {
	return strings.ReplaceAll(strings.ReplaceAll(s, "~", "~0"), "/", "~1")
}

func (p c18) Run(c *fw.Case) {
	if c.Idx%6 == 5 {
		failedCalls(c) // call history: failed calls before the case must leave nothing behind
	}
	r := c.R
	if c.Idx%12 == 7 {
		p.unreferencedResources(c)
		return
	}
	if c.Idx%12 == 1 {
		p.decoratedRootOfRemote(c)
		return
	}
	if c.Idx%24 == 5 {
		p.contentSchemaIdentifiers(c)
		return
	}
	draft := gen.D2020
	if c.Idx%3 == 2 {
		draft = gen.D7
	}
	var doc any
	var unevalInsts []any
	if c.Idx%4 == 3 {
		// the dedicated unevaluated* workload: annotation-sensitive schemas (contains, prefixItems, applicators) over tiny pools
		draft = gen.D2020
		d, array := gen.UnevalSchema(r)
		doc = d
		all := gen.UInstances(array)
		for _, i := range r.Perm(len(all))[:12] {
			unevalInsts = append(unevalInsts, all[i])
		}
		if r.IntN(3) == 0 {
			unevalInsts = append(unevalInsts, gen.ULongInstances(r, array, 1)...)
		}
	} else {
		doc = gen.Schema(r, gen.SchemaOpts{Draft: draft, MaxDepth: 2 + r.IntN(2), Refs: r.IntN(2) == 0, Uneval: true, NoMeta: true})
	}
	// write half of the `true` subschemas as {} (same meaning): object nodes can carry decorations, and an implementation
	// that special-cases the EMPTY schema sees {} and {"title":"t"} differently
	doc = mapSchemas(doc, nil, func(n any, p []string) any {
		if b, ok := n.(bool); ok && b && len(p) > 0 && r.IntN(2) == 0 {
			return map[string]any{}
		}
		return n
	})
	dm, ok := doc.(map[string]any)
	if !ok {
		dm = map[string]any{}
		if doc == false {
			dm["not"] = map[string]any{}
		}
	}
	mdraft := refmodel.D2020
	if draft == gen.D7 {
		dm["$schema"] = gen.Schema7URI
		mdraft = refmodel.D7
	}
	baseText := gen.Text(dm)
	rs0, err, ok := compileDoc(c, baseText, nil)
	if !ok {
		return
	}
	if err != nil {
		c.Count("base_schema_unresolvable", 1)
		return
	}
	insts := gen.Instances(r, dm, 12, false)
	if unevalInsts != nil {
		insts = unevalInsts
	}
	base := make([]bool, len(insts))
	texts := make([]string, len(insts))
	for i, im := range insts {
		texts[i] = gen.Text(im)
		v, ok := validate(c, rs0, baseText, gen.Canonical(texts[i]), texts[i])
		if !ok {
			return
		}
		base[i] = v
	}
	// evaluation paths per instance (model trace), to measure whether decorations sat on the path
	onPath := make([]map[string]bool, len(insts))
	if mod, err := refmodel.Build(&refmodel.Universe{Draft: mdraft, Root: gen.Parse(baseText)}); err == nil {
		mod.MaxSteps = 20000
		for i := range insts {
			set := map[string]bool{}
			mod.Trace = func(e refmodel.Event) {
				if j := strings.IndexByte(e.SchemaLoc, '#'); j >= 0 {
					set[e.SchemaLoc[j+1:]] = true
				}
			}
			if _, err := mod.Validate(gen.Parse(texts[i])); err == nil {
				onPath[i] = set
			}
		}
	}
	paths := schemaNodes(gen.Parse(baseText))
	var objPaths, emptyPaths []string
	parsed := gen.Parse(baseText)
	mapSchemas(parsed, nil, func(n any, pth []string) any {
		if m, ok := n.(map[string]any); ok {
			if len(m) == 0 {
				esc := make([]string, len(pth))
				for i, s := range pth {
					esc[i] = ptrEscape(s)
				}
				emptyPaths = append(emptyPaths, "/"+strings.Join(esc, "/"))
			}
			esc := make([]string, len(pth))
			for i, s := range pth {
				esc[i] = ptrEscape(s)
			}
			ptr := ""
			if len(esc) > 0 {
				ptr = "/" + strings.Join(esc, "/")
			}
			objPaths = append(objPaths, ptr)
		}
		return n
	})
	_ = paths
	sortStringsInPlace(objPaths)
	sortStringsInPlace(emptyPaths)
	for variant := 0; variant < 5; variant++ {
		decs := p.decorations(c, draft)
		// choose target object nodes
		targets := map[string][]decoration{}
		for _, d := range decs {
			t := objPaths[r.IntN(len(objPaths))]
			if len(emptyPaths) > 0 && r.IntN(10) < 4 {
				t = emptyPaths[r.IntN(len(emptyPaths))] // decorate an empty schema object
			}
			targets[t] = append(targets[t], d)
		}
		decorated := mapSchemas(gen.Parse(baseText), nil, func(n any, pth []string) any {
			m, ok := n.(map[string]any)
			if !ok {
				return n
			}
			esc := make([]string, len(pth))
			for i, s := range pth {
				esc[i] = ptrEscape(s)
			}
			ptr := ""
			if len(esc) > 0 {
				ptr = "/" + strings.Join(esc, "/")
			}
			for _, d := range targets[ptr] {
				if d.class == "defs" {
					if _, has := m["$defs"]; has && d.key == "definitions" {
						continue
					}
					if _, has := m["definitions"]; has && d.key == "$defs" {
						continue
					}
					if ex, ok := m[d.key].(map[string]any); ok {
						for k, v := range d.value.(map[string]any) {
							ex[k] = v
						}
						continue
					}
				}
				if _, exists := m[d.key]; exists {
					continue // never overwrite a keyword of S
				}
				m[d.key] = d.value
			}
			return n
		})
		dtext := gen.Text(decorated)
		if r.IntN(3) == 0 {
			// the same decorated document in another textual layout: member order and insignificant whitespace are free (RFC 8259)
			dtext = gen.TextShuffled(r, decorated, r.IntN(4) > 0)
		}
		rs1, err, ok := compileDoc(c, dtext, nil)
		if !ok {
			return
		}
		if err != nil {
			c.Violation("a schema decorated with non-asserting/unknown keywords is refused: "+err.Error(), map[string]any{"schema": json.RawMessage(baseText), "decorated": json.RawMessage(dtext)})
			return
		}
		for i := range insts {
			v, ok := validate(c, rs1, dtext, gen.Canonical(texts[i]), texts[i])
			if !ok {
				return
			}
			c.Eval(1)
			if v != base[i] {
				c.Violation(fmt.Sprintf("a non-asserting/unknown keyword changed the verdict (undecorated valid=%v, decorated valid=%v)", base[i], v),
					map[string]any{"schema": json.RawMessage(baseText), "decorated": json.RawMessage(dtext), "instance": json.RawMessage(texts[i])})
				return
			}
			if onPath[i] != nil {
				for t, ds := range targets {
					if onPath[i][t] {
						for _, d := range ds {
							if d.class != "meta" {
								c.Nontrivial(fmt.Sprintf("%s|%s|%T|d%d", d.class, d.key, d.value, strings.Count(t, "/")))
								c.Count("decorations_on_evaluation_path", 1)
							}
						}
					}
				}
			}
		}
		if c.Idx%2500 == 0 && variant == 0 {
			c.Sample(map[string]any{"schema": json.RawMessage(baseText), "decorated": json.RawMessage(dtext)})
		}
	}
}

func sortStringsInPlace(a []string) {
	for i := 1; i < len(a); i++ {
		for j := i; j > 0 && a[j] < a[j-1]; j-- {
			a[j], a[j-1] = a[j-1], a[j]
		}
	}
}

// unreferencedResources: $defs / definitions are non-asserting, and an entry nobody refers to stays so even when it carries
// an $id or an anchor of its own - in particular one that LOOKS LIKE the identifier of a referenced resource without being
// the same URI (trailing slash, empty path segment, query, case of the path; RFC 3986 6.2: different URIs). The base schema
// refers to an embedded resource by URI; the decorated variants add such unreferenced entries; verdicts must not move.
func (c18) unreferencedResources(c *fw.Case) {
	r := c.R
	leafs := []map[string]any{{"type": "integer"}, {"type": "string"}, {"minimum": json.Number("1")}, {"const": "x"}, {"type": []any{"string", "null"}}}
	leaf := gen.Clone(gen.Pick(r, leafs)).(map[string]any)
	id := gen.Pick(r, []string{"types/name", "http://h/types/name.json", "t.json", "sub/dir/t"})
	leaf["$id"] = id
	defsKey, base := "$defs", map[string]any{"$id": "http://h/root.json"}
	if c.Idx%24 == 7 {
		defsKey = "definitions"
		base["$schema"] = gen.Schema7URI
	}
	base[defsKey] = map[string]any{"n": leaf}
	base["properties"] = map[string]any{"a": map[string]any{"$ref": id}}
	if r.IntN(2) == 0 {
		base["items"] = map[string]any{"$ref": id}
	}
	baseText := gen.Text(base)
	rs0, err, ok := compileDoc(c, baseText, nil)
	if !ok || err != nil {
		return
	}
	var insts []any
	for _, v := range []any{json.Number("1"), json.Number("0"), "x", "y", nil, json.Number("2.5")} {
		insts = append(insts, map[string]any{"a": v}, []any{v}, v)
	}
	for k := 0; k < 4; k++ {
		dec := gen.Clone(base).(map[string]any)
		defs := dec[defsKey].(map[string]any)
		variant := id
		switch r.IntN(5) {
		case 0:
			variant = id + "/"
		case 1:
			if i := strings.LastIndex(id, "/"); i > 7 {
				variant = id[:i] + "/" + id[i:]
			} else {
				variant = id + "//x"
			}
		case 2:
			variant = id + "?v=1"
		case 3:
			if i := strings.LastIndex(id, "/"); i >= 0 {
				variant = id[:i] + strings.ToUpper(id[i:])
			} else {
				variant = strings.ToUpper(id)
			}
		default:
			variant = id + "/deeper"
		}
		key := gen.Pick(r, []string{"zz", "a0", "n2", "~"}) + fmt.Sprint(k)
		// the unreferenced entry rejects everything (or accepts everything): if it were ever used, verdicts would move
		defs[key] = map[string]any{"$id": variant, gen.Pick(r, []string{"not", "allOf"}): gen.Pick(r, []any{map[string]any{}, []any{false}})}
		if _, bad := defs[key].(map[string]any)["not"].([]any); bad {
			defs[key].(map[string]any)["not"] = map[string]any{}
		}
		if _, bad := defs[key].(map[string]any)["allOf"].(map[string]any); bad {
			defs[key].(map[string]any)["allOf"] = []any{false}
		}
		dtext := gen.TextShuffled(r, dec, false)
		rs1, err, ok := compileDoc(c, dtext, nil)
		if !ok {
			return
		}
		if err != nil {
			c.Violation("a schema with an additional unreferenced "+defsKey+" entry is refused: "+err.Error(), map[string]any{"schema": json.RawMessage(baseText), "decorated": json.RawMessage(dtext)})
			return
		}
		for _, inst := range insts {
			it := gen.Text(inst)
			v0, ok := validate(c, rs0, baseText, gen.Canonical(it), it)
			if !ok {
				return
			}
			v1, ok := validate(c, rs1, dtext, gen.Canonical(it), it)
			if !ok {
				return
			}
			c.Eval(1)
			if v0 != v1 {
				c.Violation(fmt.Sprintf("an unreferenced %s entry changed the verdict (without it valid=%v, with it valid=%v)", defsKey, v0, v1),
					map[string]any{"schema": json.RawMessage(baseText), "decorated": json.RawMessage(dtext), "instance": json.RawMessage(it)})
				return
			}
		}
		c.Nontrivial(fmt.Sprintf("unreferenced-resource|%s|%s", defsKey, variant[len(id):]))
	}
}

// decoratedRootOfRemote: the annotation-sensitive schema (unevaluated* over in-place applicators) lives in a Loader document;
// the root only refers to it and is decorated with non-asserting content - among it subschemas that MENTION unevaluated*,
// contains, dynamic anchors ... in positions that are never applied (unreferenced $defs entries, contentSchema, default,
// examples, unknown keywords). Whatever a resolver derives from "does the document use keyword X" must not depend on them.
func (c18) decoratedRootOfRemote(c *fw.Case) {
	r := c.R
	remote, array := gen.UnevalSchema(r)
	rtext := gen.Text(remote)
	ref := gen.Pick(r, []string{"http://h/u.json", "u.json", "/u.json"})
	base := map[string]any{"$ref": ref}
	if r.IntN(2) == 0 {
		base = map[string]any{"allOf": []any{map[string]any{"$ref": ref}}}
	}
	all := gen.UInstances(array)
	var insts []any
	for _, i := range r.Perm(len(all))[:14] {
		insts = append(insts, all[i])
	}
	compile := func(doc map[string]any) (*jsonschema.Resolved, string, error, bool) {
		text := gen.Text(doc)
		ld := &mapLoader{docs: map[string]string{"http://h/u.json": rtext}}
		rs, err, ok := compileDoc(c, text, &jsonschema.ResolveOptions{BaseURI: "http://h/root.json", Loader: ld.load})
		return rs, text, err, ok
	}
	rs0, baseText, err, ok := compile(base)
	if !ok || err != nil {
		return
	}
	mentions := []any{
		map[string]any{"type": "array", "unevaluatedItems": false},
		map[string]any{"unevaluatedProperties": map[string]any{"type": "null"}},
		map[string]any{"contains": false, "minContains": json.Number("0")},
		map[string]any{"$dynamicAnchor": "zz-decor", "$anchor": "zz-decor-a", "allOf": []any{map[string]any{"unevaluatedProperties": false}}},
		map[string]any{"if": true, "then": map[string]any{"unevaluatedItems": true}, "dependentSchemas": map[string]any{"a": false}},
	}
	for k := 0; k < 4; k++ {
		dec := gen.Clone(base).(map[string]any)
		m := gen.Clone(gen.Pick(r, mentions))
		var where string
		switch r.IntN(5) {
		case 0:
			dec["$defs"] = map[string]any{"unused": m}
			where = "$defs"
		case 1:
			dec["contentSchema"] = m
			where = "contentSchema"
		case 2:
			dec["default"] = m
			where = "default"
		case 3:
			dec["examples"] = []any{m}
			where = "examples"
		default:
			dec["x-unknown"] = m
			where = "unknown keyword"
		}
		rs1, dtext, err, ok := compile(dec)
		if !ok {
			return
		}
		if err != nil {
			c.Violation("a root decorated with non-asserting content is refused: "+err.Error(), map[string]any{"schema": json.RawMessage(baseText), "decorated": json.RawMessage(dtext), "loader_document": json.RawMessage(rtext)})
			return
		}
		for _, inst := range insts {
			it := gen.Text(inst)
			v0, ok := validate(c, rs0, baseText, gen.Canonical(it), it)
			if !ok {
				return
			}
			v1, ok := validate(c, rs1, dtext, gen.Canonical(it), it)
			if !ok {
				return
			}
			c.Eval(1)
			if v0 != v1 {
				c.Violation(fmt.Sprintf("non-asserting content in the root (%s) changed the verdict of a schema served by the Loader (without it valid=%v, with it valid=%v)", where, v0, v1),
					map[string]any{"schema": json.RawMessage(baseText), "decorated": json.RawMessage(dtext), "loader_document": json.RawMessage(rtext), "instance": json.RawMessage(it)})
				return
			}
		}
		c.Nontrivial("decorated-root-of-remote|" + where)
	}
	// the Loader's document itself carries non-asserting content: unreferenced definitions under either spelling of the
	// keyword ("definitions" is not a 2020-12 keyword, but no reason to read the document differently), an unknown keyword
	if rm := remote; rm != nil {
		dec := gen.Clone(rm).(map[string]any)
		where := gen.Pick(r, []string{"definitions", "definitions", "$defs", "x-unknown"})
		if _, has := dec[where]; has {
			return
		}
		if hasKeyStr(dec, "$defs") && where == "definitions" || hasKeyStr(dec, "definitions") && where == "$defs" {
			return // the library refuses a schema object with both spellings (basicChecks)
		}
		dec[where] = map[string]any{"unused": gen.Clone(gen.Pick(r, mentions)), "unused2": false}
		dtext := gen.Text(dec)
		ld := &mapLoader{docs: map[string]string{"http://h/u.json": dtext}}
		rs1, err, ok := compileDoc(c, baseText, &jsonschema.ResolveOptions{BaseURI: "http://h/root.json", Loader: ld.load})
		if !ok {
			return
		}
		if err != nil {
			c.Violation("a Loader document decorated with unreferenced definitions is refused: "+err.Error(), map[string]any{"schema": json.RawMessage(baseText), "loader_document": json.RawMessage(dtext)})
			return
		}
		for _, inst := range insts {
			it := gen.Text(inst)
			v0, ok := validate(c, rs0, baseText, gen.Canonical(it), it)
			if !ok {
				return
			}
			v1, ok := validate(c, rs1, baseText, gen.Canonical(it), it)
			if !ok {
				return
			}
			c.Eval(1)
			if v0 != v1 {
				c.Violation(fmt.Sprintf("an unreferenced %q member in the Loader's document changed the verdict (without it valid=%v, with it valid=%v)", where, v0, v1),
					map[string]any{"schema": json.RawMessage(baseText), "loader_document": json.RawMessage(rtext), "decorated_loader_document": json.RawMessage(dtext), "instance": json.RawMessage(it)})
				return
			}
		}
		c.Nontrivial("decorated-remote|" + where)
	}
	c18{}.decoratedIdentifiedRemote(c)
}

// decoratedIdentifiedRemote: the Loader's document (no $schema: it is read like the document that refers to it) is entered
// through an $anchor, or holds an $id beside a $ref (2020-12: the $id is the base of that $ref). Non-asserting content added
// to it - unreferenced definitions under either spelling, unknown keywords, annotations - changes neither whether Resolve
// succeeds nor a verdict.
func (c18) decoratedIdentifiedRemote(c *fw.Case) {
	r := c.R
	t1, t2 := gen.Pick(r, gen.TypeNames), gen.Pick(r, gen.TypeNames)
	var root string
	docs := map[string]string{}
	var remote map[string]any
	switch r.IntN(3) {
	case 0:
		remote = map[string]any{"properties": map[string]any{"n": map[string]any{"$anchor": "name", "type": t1}}}
		root = `{"properties":{"p":{"$ref":"http://h/u.json#name"}}}`
	case 1:
		remote = map[string]any{"properties": map[string]any{"p": map[string]any{"$id": "http://h/sub/", "$ref": "t.json"}}}
		root = `{"$ref":"http://h/u.json"}`
		docs["http://h/sub/t.json"] = `{"type":"` + t1 + `"}`
		docs["http://h/t.json"] = `{"type":"` + t2 + `"}`
	default:
		remote = map[string]any{"properties": map[string]any{"p": map[string]any{"$ref": "#/properties/q", "type": t2}, "q": map[string]any{"type": t1}}}
		root = `{"$ref":"http://h/u.json"}` // a sibling of $ref counts (2020-12)
	}
	var verdicts [2][]bool
	var texts [2]string
	where := gen.Pick(r, []string{"definitions", "definitions", "$defs", "x-unknown", "$comment", "examples"})
	for k := 0; k < 2; k++ {
		doc := gen.Clone(remote).(map[string]any)
		if k == 1 {
			switch where {
			case "$comment":
				doc[where] = "c"
			case "examples":
				doc[where] = []any{map[string]any{"$anchor": "name", "$id": "http://h/sub/"}}
			default:
				doc[where] = map[string]any{"unused": map[string]any{"type": "null"}}
			}
		}
		texts[k] = gen.Text(doc)
		all := map[string]string{"http://h/u.json": texts[k]}
		for u, d := range docs {
			all[u] = d
		}
		ld := &mapLoader{docs: all}
		rs, err, ok := compileDoc(c, root, &jsonschema.ResolveOptions{BaseURI: "http://h/root.json", Loader: ld.load})
		if !ok {
			return
		}
		if err != nil {
			c.Violation("Resolve fails on a root whose Loader document is entered through an identifier: "+err.Error(), map[string]any{"schema": json.RawMessage(root), "loader_document": json.RawMessage(texts[k]), "decorated": k == 1})
			return
		}
		for _, inst := range []string{`{"p":"x"}`, `{"p":1}`, `{"p":null}`, `{"p":[]}`, `{"p":{}}`, `{"p":true}`, `{"p":1.5}`, `{}`} {
			v, ok := validate(c, rs, root, gen.Canonical(inst), inst)
			if !ok {
				return
			}
			c.Eval(1)
			verdicts[k] = append(verdicts[k], v)
		}
	}
	if fmt.Sprint(verdicts[0]) != fmt.Sprint(verdicts[1]) {
		c.Violation(fmt.Sprintf("non-asserting content (%s) in the Loader's document changed verdicts: %v without, %v with", where, verdicts[0], verdicts[1]),
			map[string]any{"schema": json.RawMessage(root), "loader_document": json.RawMessage(texts[0]), "decorated_loader_document": json.RawMessage(texts[1])})
		return
	}
	c.Nontrivial("decorated-identified-remote|" + where)
}

// contentSchemaIdentifiers: contentSchema, contentMediaType and contentEncoding are annotations. A contentSchema is a
// subschema position like any other for identifiers: an $anchor, $dynamicAnchor or $id declared inside it can be the target of
// a reference elsewhere - with or without a sibling contentMediaType / contentEncoding, whose presence must change nothing.
func (c18) contentSchemaIdentifiers(c *fw.Case) {
	r := c.R
	leaf := gen.Pick(r, []map[string]any{{"type": "integer"}, {"type": "string"}, {"const": "x"}, {"minimum": json.Number("1")}})
	inner := gen.Clone(leaf).(map[string]any)
	var ref string
	switch r.IntN(3) {
	case 0:
		inner["$anchor"] = "inner"
		ref = "#inner"
	case 1:
		inner["$id"] = "http://h/inner.json"
		ref = gen.Pick(r, []string{"http://h/inner.json", "inner.json"})
	default:
		inner["$dynamicAnchor"] = "inner"
		ref = "#inner"
	}
	holder := map[string]any{"contentSchema": map[string]any{"$defs": map[string]any{"x": inner}}}
	if r.IntN(2) == 0 {
		holder = map[string]any{"contentSchema": inner}
	}
	base := map[string]any{"$id": "http://h/root.json", "properties": map[string]any{"payload": holder, "a": map[string]any{gen.Pick(r, []string{"$ref", "$dynamicRef"}): ref}}}
	baseText := gen.Text(base)
	rs0, err, ok := compileDoc(c, baseText, nil)
	if !ok {
		return
	}
	if err != nil {
		c.Violation("an identifier declared inside contentSchema cannot be referenced: "+err.Error(), map[string]any{"schema": json.RawMessage(baseText)})
		return
	}
	var insts []any
	for _, v := range []any{json.Number("1"), json.Number("0"), "x", "y", nil} {
		insts = append(insts, map[string]any{"a": v}, map[string]any{"a": v, "payload": "{}"})
	}
	for k := 0; k < 3; k++ {
		dec := gen.Clone(base).(map[string]any)
		h := dec["properties"].(map[string]any)["payload"].(map[string]any)
		switch k {
		case 0:
			h["contentMediaType"] = gen.Pick(r, []string{"application/json", "text/plain"})
		case 1:
			h["contentEncoding"] = "base64"
		default:
			h["contentMediaType"] = "application/json"
			h["contentEncoding"] = "base64"
			h["title"] = "t"
		}
		dtext := gen.TextShuffled(r, dec, false)
		rs1, err, ok := compileDoc(c, dtext, nil)
		if !ok {
			return
		}
		if err != nil {
			c.Violation("adding content annotations beside a contentSchema makes the schema unresolvable: "+err.Error(), map[string]any{"schema": json.RawMessage(baseText), "decorated": json.RawMessage(dtext)})
			return
		}
		for _, inst := range insts {
			it := gen.Text(inst)
			v0, ok := validate(c, rs0, baseText, gen.Canonical(it), it)
			if !ok {
				return
			}
			v1, ok := validate(c, rs1, dtext, gen.Canonical(it), it)
			if !ok {
				return
			}
			c.Eval(1)
			if v0 != v1 {
				c.Violation(fmt.Sprintf("a content annotation beside contentSchema changed the verdict (without it valid=%v, with it valid=%v)", v0, v1),
					map[string]any{"schema": json.RawMessage(baseText), "decorated": json.RawMessage(dtext), "instance": json.RawMessage(it)})
				return
			}
		}
		c.Nontrivial(fmt.Sprintf("contentSchema-identifiers|%d|%s", k, ref))
	}
}

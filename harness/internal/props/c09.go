package props

import (
	"bytes"
	"encoding/json"
	"fmt"
	"reflect"
	"strings"

	"verif/internal/fw"
	"verif/internal/gen"
	"verif/internal/jsonorder"
)

// C09: JSON accepted by an inferred schema decodes into the type.
type c09 struct{}

func init() { register(c09{}) }

func (c09) ID() string { return "C09" }
func (c09) Cases(t fw.Tier) int {
	return tierN(t, 8000, 250000)
}
func (c09) Rule() string {
	return "for every (type T, value v) as in C04 (without standard-library marshaler types) the valid encoding d0 = json.Marshal(v) is mutated AS TEXT at every position the harness can type by walking reflect.Type in parallel with the document: " +
		"drop each key, add an undeclared key to each struct object, replace each value by a value of every other JSON type (null, true, 7, 1.5, \"s\", [], {}), push each sized integer to min-1 / max+1, null at each position, fixed-array length +-1. " +
		"Each mutant is validated against Resolve(ForType(T)) and decoded with json.Decoder{DisallowUnknownFields} into a new T. Refuted by (i) accepted-but-does-not-decode, (ii) a mutant of a class with a definite expectation " +
		"(missing non-optional field, undeclared property in a struct, wrong JSON type in a typed position, out-of-range sized integer, null in a non-nullable position, wrong fixed-array length) that the schema accepts. " +
		"Non-trivial: a mutant with a definite expected verdict; distinct by (mutation class, Go kind at the mutated position, nullable?, depth)."
}
func (c09) Assumptions() []string {
	return []string{"integers are written without fraction/exponent and stay within the range of the field's 64-bit type; floats stay below 1e30 (float32 overflow is not among the listed rejection classes)",
		"'undeclared property' is expected to be rejected only in struct positions, type swaps only in positions that are not `any`; the K1 ambiguity classes are not generated"}
}

// tnode is an ordered JSON tree node that can be re-serialised after mutation.
func render(v any, buf *bytes.Buffer) {
	switch x := v.(type) {
	case *jsonorder.Object:
		buf.WriteByte('{')
		for i, k := range x.Keys {
			if i > 0 {
				buf.WriteByte(',')
			}
			kb, _ := json.Marshal(k)
			buf.Write(kb)
			buf.WriteByte(':')
			render(x.Vals[k], buf)
		}
		buf.WriteByte('}')
	case []any:
		buf.WriteByte('[')
		for i, e := range x {
			if i > 0 {
				buf.WriteByte(',')
			}
			render(e, buf)
		}
		buf.WriteByte(']')
	case rawText:
		buf.WriteString(string(x))
	case json.Number:
		buf.WriteString(string(x))
	case string:
		b, _ := json.Marshal(x)
		buf.Write(b)
	case bool:
		if x {
			buf.WriteString("true")
		} else {
			buf.WriteString("false")
		}
	case nil:
		buf.WriteString("null")
	default:
		panic(fmt.Sprintf("render: %T", v))
	}
}

type rawText string

type mutant struct {
	text     string
	class    string
	kind     string // Go kind at the mutated position
	nullable bool
	depth    int
	reject   bool // a definite expectation: the schema must reject
}

// structFields lists (json name, field, optional) the way encoding/json sees a struct whose embedded fields do not collide.
type sfield struct {
	name      string
	typ       reflect.Type
	optional  bool
	depth     int
	omitEmpty bool
	desc      string // jsonschema tag
}

func structFieldsOf(t reflect.Type) []sfield { return structFieldsAt(t, 0) }

func structFieldsAt(t reflect.Type, depth int) []sfield {
	var out []sfield
	for i := 0; i < t.NumField(); i++ {
		f := t.Field(i)
		tag, hasTag := f.Tag.Lookup("json")
		name, opts, _ := strings.Cut(tag, ",")
		embStruct := false
		if f.Anonymous {
			ft := f.Type
			if ft.Kind() == reflect.Pointer {
				ft = ft.Elem()
			}
			embStruct = ft.Kind() == reflect.Struct
			if embStruct && (!hasTag || name == "") {
				out = append(out, structFieldsAt(ft, depth+1)...)
				continue
			}
		}
		if !f.IsExported() && !embStruct { // (an embedded struct of unexported type with a JSON name is marshaled under that name)
			continue
		}
		if tag == "-" {
			continue
		}
		if name == "" {
			name = f.Name
		}
		optional, omitEmpty := false, false
		for _, o := range strings.Split(opts, ",") {
			if o == "omitempty" || o == "omitzero" {
				optional = true
			}
			if o == "omitempty" {
				omitEmpty = true
			}
		}
		out = append(out, sfield{name, f.Type, optional, depth, omitEmpty, f.Tag.Get("jsonschema")})
	}
	if depth > 0 {
		return out
	}
	// encoding/json's dominance rule per JSON name: the shallowest occurrence wins; several occurrences at that depth cancel
	// each other - the member does not exist at all. (Ties where exactly one occurrence is tagged are the pinned class KF-C04-1
	// and are not in the corpus.)
	minDepth := map[string]int{}
	count := map[string]int{}
	var order []string
	for _, f := range out {
		d, ok := minDepth[f.name]
		switch {
		case !ok:
			minDepth[f.name], count[f.name] = f.depth, 1
			order = append(order, f.name)
		case f.depth < d:
			minDepth[f.name], count[f.name] = f.depth, 1
		case f.depth == d:
			count[f.name]++
		}
	}
	dedup := make([]sfield, 0, len(order))
	for _, n := range order {
		if count[n] != 1 {
			continue
		}
		for _, f := range out {
			if f.name == n && f.depth == minDepth[n] {
				dedup = append(dedup, f)
				break
			}
		}
	}
	return dedup
}

var swapValues = []struct {
	jtype string
	val   any
}{{"null", nil}, {"boolean", true}, {"integer", json.Number("7")}, {"number", json.Number("1.5")}, {"string", "s"}, {"array", []any{}}, {"object", &jsonorder.Object{Vals: map[string]any{}}}}

// acceptableTypes returns the JSON types a value of Go type t may have (nil = anything).
func acceptableTypes(t reflect.Type) (types map[string]bool, nullable bool) {
	switch t.Kind() {
	case reflect.Interface:
		return nil, true
	case reflect.Pointer:
		inner, _ := acceptableTypes(t.Elem())
		if inner == nil {
			return nil, true
		}
		inner["null"] = true
		return inner, true
	case reflect.Bool:
		return map[string]bool{"boolean": true}, false
	case reflect.Int, reflect.Int8, reflect.Int16, reflect.Int32, reflect.Int64, reflect.Uint, reflect.Uint8, reflect.Uint16, reflect.Uint32, reflect.Uint64, reflect.Uintptr:
		return map[string]bool{"integer": true}, false
	case reflect.Float32, reflect.Float64:
		return map[string]bool{"integer": true, "number": true}, false
	case reflect.String:
		return map[string]bool{"string": true}, false
	case reflect.Slice:
		return map[string]bool{"array": true, "null": true}, true
	case reflect.Array:
		return map[string]bool{"array": true}, false
	case reflect.Map, reflect.Struct:
		return map[string]bool{"object": true}, false
	}
	return nil, true
}

func intBounds(t reflect.Type) (lo, hi string, ok bool) {
	switch t.Kind() {
	case reflect.Int8:
		return "-129", "128", true
	case reflect.Int16:
		return "-32769", "32768", true
	case reflect.Int32:
		return "-2147483649", "2147483648", true
	case reflect.Uint8:
		return "-1", "256", true
	case reflect.Uint16:
		return "-1", "65536", true
	case reflect.Uint32:
		return "-1", "4294967296", true
	case reflect.Uint, reflect.Uint64, reflect.Uintptr:
		return "-1", "", true
	}
	return "", "", false
}

const maxMutants = 1500

// mutate walks type and document in parallel and produces the single-point mutants (at most maxMutants).
func mutate(t reflect.Type, root any) []mutant {
	var out []mutant
	emit := func(class string, kt reflect.Type, depth int, reject bool, nullable bool) {
		if len(out) >= maxMutants {
			return // bounded: every mutant is a full rendering of the document
		}
		var buf bytes.Buffer
		render(root, &buf)
		out = append(out, mutant{text: buf.String(), class: class, kind: kt.Kind().String(), nullable: nullable, depth: depth, reject: reject})
	}
	var walk func(t reflect.Type, get func() any, set func(any), depth int)
	walk = func(t reflect.Type, get func() any, set func(any), depth int) {
		if depth > 12 || len(out) >= maxMutants {
			return
		}
		orig := get()
		types, nullable := acceptableTypes(t)
		// value-level mutations at this position
		for _, sw := range swapValues {
			if sw.jtype == "null" {
				set(nil)
				emit("null", t, depth, !nullable, nullable)
				continue
			}
			reject := types != nil && !types[sw.jtype]
			if types != nil && types[sw.jtype] {
				continue // same type: not a type swap
			}
			set(sw.val)
			emit("type-swap:"+sw.jtype, t, depth, reject, nullable)
		}
		set(orig)
		if lo, hi, ok := intBounds(t); ok {
			if _, isNum := orig.(json.Number); isNum {
				set(rawText(lo))
				emit("int-below-min", t, depth, true, false)
				if hi != "" {
					set(rawText(hi))
					emit("int-above-max", t, depth, true, false)
				}
				set(orig)
			}
		}
		// descend
		bt := t
		for bt.Kind() == reflect.Pointer {
			bt = bt.Elem()
		}
		switch bt.Kind() {
		case reflect.Struct:
			obj, ok := orig.(*jsonorder.Object)
			if !ok {
				return
			}
			fields := structFieldsOf(bt)
			byName := map[string]sfield{}
			for _, f := range fields {
				byName[f.name] = f
			}
			// add an undeclared key
			obj.Keys = append(obj.Keys, "zz_undeclared")
			obj.Vals["zz_undeclared"] = json.Number("1")
			emit("undeclared-property", bt, depth, true, false)
			obj.Keys = obj.Keys[:len(obj.Keys)-1]
			delete(obj.Vals, "zz_undeclared")
			// drop each key
			keys := append([]string{}, obj.Keys...)
			for i, k := range keys {
				f, known := byName[k]
				if !known {
					continue
				}
				saved := obj.Vals[k]
				obj.Keys = append(append([]string{}, keys[:i]...), keys[i+1:]...)
				delete(obj.Vals, k)
				emit("drop-key", f.typ, depth+1, !f.optional, false)
				obj.Keys = append([]string{}, keys...)
				obj.Vals[k] = saved
			}
			for _, k := range keys {
				f, known := byName[k]
				if !known {
					continue
				}
				k := k
				walk(f.typ, func() any { return obj.Vals[k] }, func(v any) { obj.Vals[k] = v }, depth+1)
			}
		case reflect.Map:
			obj, ok := orig.(*jsonorder.Object)
			if !ok {
				return
			}
			for _, k := range append([]string{}, obj.Keys...) {
				k := k
				walk(bt.Elem(), func() any { return obj.Vals[k] }, func(v any) { obj.Vals[k] = v }, depth+1)
			}
		case reflect.Slice, reflect.Array:
			arr, ok := orig.([]any)
			if !ok {
				return
			}
			if bt.Kind() == reflect.Array {
				// wrong fixed-array length
				if len(arr) > 0 {
					set(arr[:len(arr)-1])
					emit("array-too-short", bt, depth, true, false)
				}
				var extra any = json.Number("0")
				if len(arr) > 0 {
					extra = arr[0]
				} else if et, _ := acceptableTypes(bt.Elem()); et != nil && !et["integer"] {
					extra = nil
				}
				if extra != nil {
					set(append(append([]any{}, arr...), extra))
					emit("array-too-long", bt, depth, true, false)
				}
				set(orig)
			}
			for i := range arr {
				i := i
				if i > 2 {
					break
				}
				walk(bt.Elem(), func() any { return arr[i] }, func(v any) { arr[i] = v }, depth+1)
			}
		}
	}
	walk(t, func() any { return root }, func(v any) { root = v }, 0)
	return out
}

func (c09) Run(c *fw.Case) {
	r := c.R
	t, opts, _ := pickType(c, true)
	if c.Idx%4 == 1 {
		decoyInfer(c, t) // call history: the same type inferred with other options first
	}
	s, rs, ok := inferAndResolve(c, t, opts)
	if !ok {
		return
	}
	schemaJSON, _ := json.Marshal(s)
	class := []gen.ValueClass{gen.VMax, gen.VRandom, gen.VFull, gen.VMin}[c.Idx%4]
	p := reflect.New(t)
	gen.Fill(r, p.Elem(), class, 0)
	d0, err := json.Marshal(p.Interface())
	if err != nil {
		return
	}
	if len(d0) > 6000 {
		// keep documents small (every mutant is a full copy): fall back to the sparse value of the same type
		p = reflect.New(t)
		gen.Fill(r, p.Elem(), gen.VMin, 0)
		if d0, err = json.Marshal(p.Interface()); err != nil || len(d0) > 6000 {
			c.Count("types_skipped_document_too_large", 1)
			return
		}
	}
	root, err := jsonorder.Decode(d0)
	if err != nil {
		c.Inconclusive("encoding/json output does not parse: " + err.Error())
		return
	}
	muts := mutate(t, root)
	if len(muts) > 400 {
		// a seeded sample of large mutant sets
		r.Shuffle(len(muts), func(i, j int) { muts[i], muts[j] = muts[j], muts[i] })
		muts = muts[:400]
	}
	muts = append(muts, mutant{text: string(d0), class: "unmutated"})
	for _, m := range muts {
		var inst any
		if err := json.Unmarshal([]byte(m.text), &inst); err != nil {
			c.Inconclusive("mutant is not valid JSON (harness bug): " + m.class)
			continue
		}
		valid, ok := validate(c, rs, string(schemaJSON), inst, m.text)
		if !ok {
			return
		}
		c.Eval(1)
		wit := func() map[string]any {
			return map[string]any{"type": t.String(), "mutation": m.class, "go_kind_at_position": m.kind, "original": json.RawMessage(d0), "mutant": json.RawMessage(m.text), "inferred_schema": json.RawMessage(schemaJSON)}
		}
		if m.class == "unmutated" {
			if !valid {
				c.Violation("the unmutated encoding is rejected (C04)", wit())
				return
			}
			continue
		}
		if valid {
			dec := json.NewDecoder(strings.NewReader(m.text))
			dec.DisallowUnknownFields()
			target := reflect.New(t)
			if derr := dec.Decode(target.Interface()); derr != nil {
				w := wit()
				w["decode_error"] = derr.Error()
				c.Violation("a document accepted by the inferred schema does not decode into the type: "+derr.Error(), w)
				return
			}
		}
		if m.reject {
			c.Nontrivial(fmt.Sprintf("%s|%s|%v|d%d", m.class, m.kind, m.nullable, min(m.depth, 4)))
			c.Count("expected-reject:"+strings.SplitN(m.class, ":", 2)[0], 1)
			if valid {
				c.Violation(fmt.Sprintf("the inferred schema accepts a %s mutant (Go kind %s at the mutated position)", m.class, m.kind), wit())
				return
			}
		}
	}
	if c.Idx%1200 == 0 && len(muts) > 1 {
		c.Sample(map[string]any{"type": t.String(), "original": json.RawMessage(d0), "a_mutant": json.RawMessage(muts[0].text), "mutation": muts[0].class, "mutants": len(muts)})
	}
}

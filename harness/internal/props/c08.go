package props

import (
	"encoding/json"
	"fmt"
	"math/big"
	"reflect"

	"verif/internal/canon"
	"verif/internal/fw"
	"verif/internal/gen"
)

// C08: the verdict does not depend on the Go representation of the instance.
type c08 struct{}

func init() { register(c08{}) }

func (c08) ID() string { return "C08" }
func (c08) Cases(t fw.Tier) int {
	return tierN(t, 30000, 800000)
}
func (c08) Rule() string {
	return "each case generates one schema document (both drafts; grouped keyword generator with $defs/$ref, unevaluated*, or a small schema focused on representation-sensitive keywords: " +
		"type, enum, const, uniqueItems, numeric bounds at integer/float boundaries, minLength/maxLength/pattern, object keywords) and 6 instances (schema-directed + perturbed + free); " +
		"for each (schema, instance) the verdict of the canonical encoding/json decoding is compared with the verdicts of 8 random exact Go representations " +
		"(all int/uint/float kinds that hold each number exactly, json.Number in several spellings, named types, typed slices, Go arrays, typed maps, named key types, pointers at any node). " +
		"Integers beyond 2^53 have no exact canonical decoding; there all exact representations must agree with the json.Number one. " +
		"Non-trivial: the representation differs from the canonical one in some node kind and the verdicts were decided; distinct by (set of Go kinds in the representation, set of keyword groups in the schema, verdict)."
}
func (c08) Assumptions() []string {
	return []string{"the canonical verdict itself is C01/C02's business; here only agreement between representations is decided",
		"nil slices, nil maps, struct instances and []uint8 slices are outside the property's domain and never generated",
		"float32 / sized integer kinds are used only for values they hold exactly"}
}

var reprFocusKeywords = []string{"type", "enum", "const", "uniqueItems", "minimum", "maximum", "exclusiveMinimum", "exclusiveMaximum", "multipleOf",
	"minLength", "maxLength", "pattern", "required", "properties", "propertyNames", "dependentRequired", "minProperties", "maxProperties", "additionalProperties", "patternProperties", "minItems", "contains"}

// focusedSchema is a flat schema over representation-sensitive keywords with boundary values.
func focusedSchema(c *fw.Case) map[string]any {
	r := c.R
	s := map[string]any{}
	bounds := []string{"0", "1", "-1", "127", "128", "255", "256", "65535", "65536", "2147483647", "2147483648", "4294967295", "9007199254740992", "0.5", "1.5", "-128", "-129"}
	for i := 2 + r.IntN(3); i > 0; i-- {
		switch kw := gen.Pick(r, reprFocusKeywords); kw {
		case "type":
			if r.IntN(2) == 0 {
				s[kw] = gen.Pick(r, gen.TypeNames)
			} else {
				s[kw] = []any{gen.Pick(r, gen.TypeNames), gen.Pick(r, []string{"integer", "number", "string"})}
				if s[kw].([]any)[0] == s[kw].([]any)[1] {
					s[kw] = s[kw].([]any)[0]
				}
			}
		case "enum":
			n := 1 + r.IntN(4)
			l := make([]any, n)
			for j := range l {
				l[j] = gen.Value(r, gen.ValueOpts{MaxDepth: 2, MaxLen: 2}, 0)
			}
			s[kw] = l
		case "const":
			s[kw] = gen.Value(r, gen.ValueOpts{MaxDepth: 2, MaxLen: 2}, 0)
		case "uniqueItems":
			s[kw] = true
		case "minimum", "maximum", "exclusiveMinimum", "exclusiveMaximum":
			s[kw] = json.Number(gen.Pick(r, bounds))
		case "multipleOf":
			s[kw] = json.Number(gen.Pick(r, gen.MultipleOf))
		case "minLength", "maxLength", "minProperties", "maxProperties", "minItems":
			s[kw] = json.Number(fmt.Sprint(r.IntN(4)))
		case "pattern":
			s[kw] = gen.Pick(r, gen.Patterns)
		case "required":
			s[kw] = []any{gen.Pick(r, gen.Names)}
		case "properties":
			s[kw] = map[string]any{gen.Pick(r, gen.Names): map[string]any{"type": gen.Pick(r, gen.TypeNames)}, gen.Pick(r, gen.Names): map[string]any{"minimum": json.Number(gen.Pick(r, bounds))}}
		case "propertyNames":
			s[kw] = map[string]any{"pattern": gen.Pick(r, gen.Patterns)}
		case "dependentRequired":
			s[kw] = map[string]any{gen.Pick(r, gen.Names): []any{gen.Pick(r, gen.Names)}}
		case "additionalProperties":
			s[kw] = map[string]any{"type": gen.Pick(r, gen.TypeNames)}
		case "patternProperties":
			s[kw] = map[string]any{gen.Pick(r, gen.Patterns): map[string]any{"type": gen.Pick(r, gen.TypeNames)}}
		case "contains":
			s[kw] = map[string]any{"const": gen.Value(r, gen.ValueOpts{MaxDepth: 1, MaxLen: 2}, 0)}
		}
	}
	return s
}

func keywordSet(v any, acc map[string]bool, depth int) {
	if depth > 8 {
		return
	}
	switch x := v.(type) {
	case map[string]any:
		for k, e := range x {
			acc[k] = true
			if k != "enum" && k != "const" && k != "default" && k != "examples" {
				keywordSet(e, acc, depth+1)
			}
		}
	case []any:
		for _, e := range x {
			keywordSet(e, acc, depth+1)
		}
	}
}

// hasInexact reports whether the value contains a number float64 cannot hold exactly.
func hasInexact(v any) bool {
	switch x := v.(type) {
	case json.Number:
		r, ok := new(big.Rat).SetString(string(x))
		if !ok {
			return true
		}
		_, exact := r.Float64()
		return !exact
	case []any:
		for _, e := range x {
			if hasInexact(e) {
				return true
			}
		}
	case map[string]any:
		for _, e := range x {
			if hasInexact(e) {
				return true
			}
		}
	}
	return false
}

func (c08) Run(c *fw.Case) {
	if c.Idx%6 == 5 {
		failedCalls(c) // call history: failed calls before the case must leave nothing behind
	}
	r := c.R
	if c.Idx%25 == 24 {
		c08{}.tower(c)
		return
	}
	var doc any
	draft := gen.D2020
	if c.Idx%4 == 3 {
		draft = gen.D7
	}
	var fixedInsts []any
	if c.Idx%11 == 7 {
		// homogeneous arrays (the representation generator turns them into []string, []int64, [2]float64, []bool ...) under an
		// items / contains schema that is a bare type test, observed by unevaluatedItems at the same or an enclosing level:
		// whatever a typed container lets an implementation skip, the items still count as evaluated
		draft = gen.D2020
		t := gen.Pick(r, []string{"string", "integer", "number", "boolean"})
		it := map[string]any{"type": t}
		un := gen.Pick(r, []any{false, map[string]any{"type": "null"}, map[string]any{"not": map[string]any{}}})
		doc = gen.Pick(r, []map[string]any{
			{"items": it, "unevaluatedItems": un},
			{"allOf": []any{map[string]any{"items": it}}, "unevaluatedItems": un},
			{"prefixItems": []any{it}, "items": it, "unevaluatedItems": un},
			{"$ref": "#/$defs/a", "unevaluatedItems": un, "$defs": map[string]any{"a": map[string]any{"items": it}}},
			{"contains": it, "unevaluatedItems": un},
			{"if": map[string]any{"items": it}, "then": true, "unevaluatedItems": un},
			{"properties": map[string]any{"a": map[string]any{"anyOf": []any{map[string]any{"items": it}}, "unevaluatedItems": un}}},
		})
		vals := map[string][]any{"string": {"a", "b", ""}, "integer": {json.Number("1"), json.Number("-2"), json.Number("0")}, "number": {json.Number("1.5"), json.Number("2"), json.Number("-0.25")}, "boolean": {true, false}}[t]
		for n := 0; n <= 3; n++ {
			a := make([]any, n)
			for i := range a {
				a[i] = gen.Pick(r, vals)
			}
			fixedInsts = append(fixedInsts, a, map[string]any{"a": gen.Clone(a)})
		}
		fixedInsts = append(fixedInsts, []any{gen.Pick(r, vals), nil}, []any{"x", json.Number("1")})
	} else if c.Idx%13 == 5 {
		// a power of two on the schema side, its WRAP-AROUND image on the instance side (what a conversion to a narrower or
		// signed machine integer turns it into: 2^63 -> -2^63, 2^64 -> 0, 2^31 -> -2^31, 2^8 -> 0 ...), in every integer kind
		// that holds it: equal only if equal as numbers
		pairs := [][2]string{{"9223372036854775808", "-9223372036854775808"}, {"18446744073709551616", "0"}, {"4294967296", "0"}, {"2147483648", "-2147483648"},
			{"65536", "0"}, {"32768", "-32768"}, {"256", "0"}, {"128", "-128"}, {"9007199254740992", "0"}, {"-9223372036854775808", "9223372036854775808"}, {"18446744073709551615", "-1"}, {"4294967295", "-1"}}
		pr := gen.Pick(r, pairs)
		b, w := json.Number(pr[0]), json.Number(pr[1])
		draft = gen.D2020
		doc = gen.Pick(r, []map[string]any{
			{"enum": []any{b, "x"}}, {"const": b}, {"not": map[string]any{"const": b}}, {"items": map[string]any{"enum": []any{b}}}, {"properties": map[string]any{"a": map[string]any{"const": b}}},
			{"enum": []any{[]any{b}, map[string]any{"a": b}}}, {"if": map[string]any{"const": b}, "then": false},
		})
		fixedInsts = []any{w, b, []any{w}, []any{b, w}, map[string]any{"a": w}, map[string]any{"a": b}, json.Number("0")}
	} else if c.Idx%2 == 0 {
		doc = focusedSchema(c)
	} else {
		doc = gen.Schema(r, gen.SchemaOpts{Draft: draft, MaxDepth: 3, Refs: r.IntN(2) == 0, Uneval: true})
	}
	if m, ok := doc.(map[string]any); ok && draft == gen.D7 {
		m["$schema"] = gen.Schema7URI
	}
	text := gen.Text(doc)
	rs, err, ok := compileDoc(c, text, nil)
	if !ok {
		return
	}
	if err != nil {
		c.Count("schemas_unresolvable", 1)
		return
	}
	kws := map[string]bool{}
	keywordSet(doc, kws, 0)
	insts := gen.Instances(r, doc, 6, false)
	if fixedInsts != nil {
		insts = fixedInsts
	}
	// typed integers beyond 2^53 for numeric-bound schemas
	if r.IntN(4) == 0 {
		insts = append(insts, json.Number(gen.Pick(r, gen.BigInts)), []any{json.Number(gen.Pick(r, gen.BigInts)), json.Number("1")})
	}
	for _, im := range insts {
		itext := gen.Text(im)
		var ref any
		refDesc := "canonical"
		if hasInexact(im) {
			ref = gen.Parse(itext) // json.Number form: the only decoding that keeps the value
			refDesc = "json.Number"
		} else {
			ref = gen.Canonical(itext)
		}
		want, ok := validate(c, rs, text, ref, refDesc+" "+itext)
		if !ok {
			return
		}
		wantCanon := canon.Must(ref)
		for k := 0; k < 8; k++ {
			var tr gen.ReprTrace
			rv := gen.Repr(r, im, gen.ReprOpts{}, &tr)
			if canon.Must(rv) != wantCanon {
				panic("C08: representation does not denote the instance")
			}
			desc := gen.Describe(rv)
			got, ok := validate(c, rs, text, rv, desc)
			if !ok {
				return
			}
			c.Eval(1)
			if len(tr.Kinds) > 0 {
				c.Nontrivial(fmt.Sprintf("%s|%s|%v", tr.Key(), groupKey(kws), want))
			}
			if got != want {
				c.Violation(fmt.Sprintf("verdict depends on the Go representation: %s decoding valid=%v, representation valid=%v", refDesc, want, got),
					map[string]any{"schema": json.RawMessage(text), "instance_json": json.RawMessage(itext), "representation": desc, "reference": refDesc, "reference_valid": want, "representation_valid": got})
				return
			}
		}
	}
	if c.Idx%800 == 0 {
		c.Sample(map[string]any{"schema": json.RawMessage(text), "instance": json.RawMessage(gen.Text(insts[0])), "representation": gen.Describe(gen.Repr(r, insts[0], gen.ReprOpts{}, nil))})
	}
}

func groupKey(kws map[string]bool) string {
	g := ""
	has := func(ks ...string) bool {
		for _, k := range ks {
			if kws[k] {
				return true
			}
		}
		return false
	}
	if has("type") {
		g += "T"
	}
	if has("enum", "const") {
		g += "E"
	}
	if has("uniqueItems") {
		g += "U"
	}
	if has("minimum", "maximum", "exclusiveMinimum", "exclusiveMaximum", "multipleOf") {
		g += "N"
	}
	if has("minLength", "maxLength", "pattern") {
		g += "S"
	}
	if has("properties", "required", "propertyNames", "dependentRequired", "additionalProperties", "patternProperties", "minProperties", "maxProperties", "dependencies", "dependentSchemas", "unevaluatedProperties") {
		g += "O"
	}
	if has("items", "prefixItems", "contains", "minItems", "maxItems", "unevaluatedItems", "additionalItems") {
		g += "A"
	}
	if has("allOf", "anyOf", "oneOf", "not", "if", "$ref") {
		g += "L"
	}
	return g
}

// tower: size stress for the representation walk. A recursive schema visits every level of a tower of 10..2000 nested
// arrays / objects (some levels twice: items + contains, properties + patternProperties); the tower is given in the canonical
// decoding and with 0-2 pointers in front of every level and of the leaf. Guards that only start working at some depth
// (cycle detection after N pointers, as encoding/json has) are reached only by such instances.
func (c08) tower(c *fw.Case) {
	r := c.R
	type shape struct {
		schema string
		object bool
	}
	sh := gen.Pick(r, []shape{
		{`{"items":{"$ref":"#"},"contains":{}}`, false},
		{`{"items":{"$ref":"#"},"contains":{"not":{"const":"never"}},"type":["array","integer"]}`, false},
		{`{"properties":{"k":{"$ref":"#"}},"patternProperties":{"^k":{}},"type":["object","integer"]}`, true},
		{`{"properties":{"k":{"$ref":"#"}},"additionalProperties":false,"minimum":0}`, true},
		{`{"items":{"$ref":"#"},"maxItems":1,"minimum":0,"uniqueItems":true}`, false},
	})
	depth := gen.Pick(r, []int{10, 100, 500, 999, 1000, 1001, 1002, 1100, 2000})
	leafModel := gen.Pick(r, []any{json.Number("7"), json.Number("-1"), "x", json.Number("0.5")})
	var model any = leafModel
	for d := 0; d < depth; d++ {
		if sh.object {
			model = map[string]any{"k": model}
		} else {
			model = []any{model}
		}
	}
	rs, err, ok := compileDoc(c, sh.schema, nil)
	if !ok || err != nil {
		return
	}
	itext := gen.Text(model)
	ref := gen.Canonical(itext)
	want, ok := validate(c, rs, sh.schema, ref, fmt.Sprintf("canonical tower depth %d leaf %v", depth, leafModel))
	if !ok {
		return
	}
	ptr := func(v any, n int) any {
		for ; n > 0; n-- {
			p := reflect.New(reflect.TypeOf(v))
			p.Elem().Set(reflect.ValueOf(v))
			v = p.Interface()
		}
		return v
	}
	for k := 0; k < 4; k++ {
		mode := r.IntN(4) // pointers in front of: every level k times (0..2), or a random number per level
		per := r.IntN(3)
		var leaf any
		switch lm := leafModel.(type) {
		case json.Number:
			f, _ := lm.Float64()
			leaf = gen.Pick(r, []any{f, lm, float32(f)})
			if f == float64(int(f)) && r.IntN(2) == 0 {
				leaf = int(f)
			}
		default:
			leaf = lm
		}
		np := func() int {
			if mode == 3 {
				return r.IntN(3)
			}
			return per
		}
		v := ptr(leaf, np())
		for d := 0; d < depth; d++ {
			if sh.object {
				v = ptr(map[string]any{"k": v}, np())
			} else {
				v = ptr([]any{v}, np())
			}
		}
		desc := fmt.Sprintf("tower depth %d, pointer mode %d/%d, leaf %T(%v)", depth, mode, per, leaf, leaf)
		got, ok := validate(c, rs, sh.schema, v, desc)
		if !ok {
			return
		}
		c.Eval(1)
		c.Nontrivial(fmt.Sprintf("tower|d%d|m%d|p%d|%v", depth, mode, per, want))
		if got != want {
			c.Violation(fmt.Sprintf("verdict depends on the Go representation: canonical decoding valid=%v, pointer representation valid=%v", want, got),
				map[string]any{"schema": json.RawMessage(sh.schema), "instance": desc, "reference_valid": want, "representation_valid": got})
			return
		}
	}
}

package props

import (
	"encoding/json"
	"fmt"
	"math/rand/v2"
	"reflect"
	"sync"

	"github.com/google/jsonschema-go/jsonschema"

	"verif/internal/canon"
	"verif/internal/fw"
	"verif/internal/gen"
)

// C12: enum, const and uniqueItems decide by JSON equality (incl. the hash law behind uniqueItems).
type c12 struct{}

func init() { register(c12{}) }

func (c12) ID() string { return "C12" }
func (c12) Cases(t fw.Tier) int {
	return tierN(t, 200000, 3000000)
}
func (c12) Processes(t fw.Tier) int { return tierN(t, 2, 4) }
func (c12) Rule() string {
	return "case kinds: (u) arrays of length 0-12 over a small value pool (one in six: 13-257 mostly unique items with hash-colliding unequal values and at most one duplicated value), each element in its own random exact Go representation, with planted duplicates at random position pairs " +
		"(equal-but-not-identical: 1 / 1.0 / int8(1) / json.Number(\"1e0\"), key-permuted and differently typed containers) validated 8x against {uniqueItems:true} (every call draws a fresh hash seed) " +
		"and compared with the pairwise canonical-form definition; (e) enum lists of 0-6 values and (c) const values, given both as documents and as Schema structs holding arbitrary representations, against equal / near-miss instances; " +
		"(h) the hash law canon(x)==canon(y) => VerifHashValue(seed,x)==VerifHashValue(seed,y) on equal-by-construction pairs under fresh seeds (hook). Every case also runs in a second process and the verdict digests must agree. " +
		"Non-trivial: the array / enum contains an equal-not-identical pair (same canonical form, different Go types) or a near miss; distinct by (kind, length, duplicate positions or hit index, Go kind pair)."
}
func (c12) Assumptions() []string {
	return []string{"canonical form from internal/canon is JSON value equality", "nil slices/maps, structs, []uint8 are outside the domain",
		"hash law needs the verif hook VerifHashValue; without it only verdicts are checked"}
}

var (
	uniqOnce sync.Once
	uniqRS   *jsonschema.Resolved
)

func uniqueSchema() *jsonschema.Resolved {
	uniqOnce.Do(func() {
		rs, err := (&jsonschema.Schema{UniqueItems: true}).Resolve(nil)
		if err != nil {
			panic(err)
		}
		uniqRS = rs
	})
	return uniqRS
}

func typeName(v any) string {
	if v == nil {
		return "nil"
	}
	return reflect.TypeOf(v).String()
}

func (p c12) Run(c *fw.Case) {
	r := c.R
	switch k := c.Idx % 10; {
	case k < 5:
		p.unique(c)
	case k < 7:
		p.enumConst(c, true)
	case k < 9:
		p.enumConst(c, false)
	default:
		p.hashLaw(c)
	}
	_ = r
}

func (c12) unique(c *fw.Case) {
	r := c.R
	// a small pool so that chance duplicates occur, plus planted ones
	poolN := 2 + r.IntN(5)
	pool := make([]any, poolN)
	for i := range pool {
		pool[i] = gen.Value(r, gen.ValueOpts{MaxDepth: 2, BigInts: true, MaxLen: 2}, 0)
	}
	n := r.IntN(13)
	model := make([]any, n)
	numericOnly := r.IntN(5) == 0 // arrays of numbers only: typed numeric containers and []json.Number become possible
	if numericOnly {
		for i := range pool {
			pool[i] = json.Number(gen.Pick(r, gen.Numbers))
		}
	}
	for i := range model {
		if numericOnly {
			model[i] = gen.Clone(pool[r.IntN(poolN)])
			if r.IntN(3) == 0 {
				model[i] = json.Number(gen.Pick(r, []string{"1", "1.0", "1e0", "10e-1", "0", "-0", "0.0", "-0.0", "100", "1e2", "1E2", "2", "2.0"}))
			}
			continue
		}
		if r.IntN(3) == 0 {
			model[i] = gen.Value(r, gen.ValueOpts{MaxDepth: 2, BigInts: true, MaxLen: 2}, 0)
		} else if r.IntN(4) == 0 {
			model[i] = nearMiss(r, pool[r.IntN(poolN)], 0)
		} else {
			model[i] = gen.Clone(pool[r.IntN(poolN)])
		}
	}
	if r.IntN(6) == 0 {
		// size stress: long, mostly unique arrays (13..257 items; implementations switch from pairwise comparison to hashing or
		// sorting at some length) whose verdict hinges on ONE pair, in the company of hash colliders: unequal values that feed
		// the same bytes to the hasher (null / false / "\x00", [] / {}, ["a","b"] / ["ab",""], {"a":"bc"} / {"ab":"c"})
		model = longUniqueModel(r)
		n = len(model)
	}
	planted := ""
	if n >= 2 && r.IntN(2) == 0 {
		i, j := r.IntN(n), r.IntN(n)
		if i != j {
			model[j] = gen.Clone(model[i])
			if r.IntN(2) == 0 {
				model[j] = gen.Respell(r, model[j]) // 0 / -0 / 0.0, 1 / 1.0 / 1e0, also inside containers
			}
			planted = fmt.Sprintf("%d,%d", min(i, j), max(i, j))
		}
	}
	els := make([]any, n)
	canons := make([]string, n)
	for i := range model {
		els[i] = gen.Repr(r, model[i], gen.ReprOpts{}, nil)
		canons[i] = canon.Must(els[i])
	}
	// expected by the pairwise definition
	expectUnique := true
	dupI, dupJ := -1, -1
	for i := 0; i < n && expectUnique; i++ {
		for j := i + 1; j < n; j++ {
			if canons[i] == canons[j] {
				expectUnique = false
				dupI, dupJ = i, j
				break
			}
		}
	}
	// container: []any, a Go array of any, or (30%) whatever typed container the representation generator picks for the whole
	// array ([]json.Number with different spellings of equal numbers, []float64, [][]any, []map[string]int, ...)
	var inst any = els
	if k := r.IntN(10); k < 3 || numericOnly && k < 8 {
		whole := gen.Repr(r, model, gen.ReprOpts{}, nil)
		if canon.Must(whole) == canon.Must(els) {
			inst = whole
		}
	} else if k == 3 {
		a := reflect.New(reflect.ArrayOf(n, reflect.TypeOf((*any)(nil)).Elem())).Elem()
		for i, e := range els {
			if e != nil {
				a.Index(i).Set(reflect.ValueOf(e))
			}
		}
		inst = a.Interface()
	}
	rs := uniqueSchema()
	schemaText := `{"uniqueItems":true}`
	if r.IntN(5) == 0 && !hasInexact(model) { // (numbers in a schema DOCUMENT are float64: only values a float64 holds exactly can be listed)
		// uniqueItems beside prefixItems and an items schema that admits only finitely many values (enum / const): the first k
		// items are covered by prefixItems, the rest by items - every member of the array is admitted, so the verdict still hinges
		// on uniqueness alone (an implementation must not conclude "more items than admitted values => duplicates")
		k := r.IntN(n + 1)
		var enum []any
		seen := map[string]bool{}
		for _, m := range model[k:] {
			cm := canon.Must(m)
			if !seen[cm] {
				seen[cm] = true
				enum = append(enum, gen.Clone(m))
			}
		}
		doc := map[string]any{"uniqueItems": true, "prefixItems": make([]any, k)}
		for i := 0; i < k; i++ {
			doc["prefixItems"].([]any)[i] = gen.Pick(r, []any{true, map[string]any{}})
		}
		switch {
		case len(enum) == 1 && r.IntN(2) == 0:
			doc["items"] = map[string]any{"const": enum[0]}
		case len(enum) > 0:
			doc["items"] = map[string]any{"enum": enum}
		default:
			doc["items"] = map[string]any{"const": nil}
		}
		if k == 0 {
			delete(doc, "prefixItems")
		}
		text := gen.Text(doc)
		if rs2, err, ok := compileDoc(c, text, nil); ok && err == nil {
			rs, schemaText = rs2, text
		}
	}
	desc := gen.Describe(inst)
	for rep := 0; rep < 8; rep++ {
		got, ok := validate(c, rs, schemaText, inst, desc)
		if !ok {
			return
		}
		c.Eval(1)
		c.Digest(fmt.Sprint(got))
		if got != expectUnique {
			c.Violation(fmt.Sprintf("uniqueItems verdict valid=%v but pairwise JSON equality says unique=%v (repetition %d)", got, expectUnique, rep),
				map[string]any{"schema": json.RawMessage(schemaText), "instance": desc, "canon": canons, "equal_positions": []int{dupI, dupJ}, "repetition": rep})
			return
		}
	}
	if n >= 1 && r.IntN(4) == 0 {
		// several uniqueItems checks within ONE call, a failed one swallowed in between: the first member of the outer array
		// holds the same items plus a repeated one and sits under not / if / anyOf, the second member is the array itself.
		// Whatever the failed check leaves behind must not reach the next one.
		withDup := append(append([]any{els[r.IntN(n)]}, els...), els[r.IntN(n)])
		first := gen.Pick(r, []string{`{"not":{"uniqueItems":true}}`, `{"if":{"uniqueItems":true},"then":false}`, `{"anyOf":[{"uniqueItems":true},{"minItems":2}]}`})
		text := `{"prefixItems":[` + first + `,{"uniqueItems":true}]}`
		if rs2, err, ok := compileDoc(c, text, nil); ok && err == nil {
			outer := []any{withDup, inst}
			odesc := gen.Describe(outer)
			got, ok := validate(c, rs2, text, outer, odesc)
			if !ok {
				return
			}
			c.Eval(1)
			c.Count("unique:after_a_swallowed_failure", 1)
			if got != expectUnique {
				c.Violation(fmt.Sprintf("uniqueItems after a swallowed uniqueItems failure in the same call: valid=%v but pairwise JSON equality says unique=%v", got, expectUnique),
					map[string]any{"schema": json.RawMessage(text), "instance": odesc, "canon": canons})
				return
			}
		}
	}
	if !expectUnique {
		ti, tj := typeName(els[dupI]), typeName(els[dupJ])
		if ti != tj || planted == "" {
			c.Nontrivial(fmt.Sprintf("u|%d|%d,%d|%s|%s", n, dupI, dupJ, ti, tj))
		}
		c.Count("unique:duplicate_arrays", 1)
		if ti != tj {
			c.Count("unique:equal_not_identical_duplicates", 1)
		}
	} else {
		// near miss present?
		c.Count("unique:unique_arrays", 1)
		if n >= 2 {
			c.Nontrivial(fmt.Sprintf("u|unique|%d|%s", n, typeName(els[0])))
		}
	}
	if c.Idx%1000 == 0 {
		c.Sample(map[string]any{"kind": "uniqueItems", "instance": desc, "expected_unique": expectUnique})
	}
}

// longUniqueModel builds a long, mostly unique array (model form): 13..257 distinct items, optionally the members of one
// family of hash colliders (unequal values that feed the same bytes to the hasher), optionally one value twice.
func longUniqueModel(r *rand.Rand) []any {
	n := gen.Pick(r, []int{13, 14, 15, 16, 17, 18, 19, 24, 31, 32, 33, 34, 63, 64, 65, 66, 100, 129, 257})
	model := make([]any, n)
	for i := range model {
		switch r.IntN(4) {
		case 0:
			model[i] = fmt.Sprintf("s%d", i)
		case 1:
			model[i] = []any{json.Number(fmt.Sprint(i))}
		case 2:
			model[i] = map[string]any{"i": json.Number(fmt.Sprint(i))}
		default:
			model[i] = json.Number(fmt.Sprint(i + 1000))
		}
	}
	families := [][]any{{nil, false, "\x00"}, {true, "\x01"}, {[]any{}, map[string]any{}}, {[]any{"a", "b"}, []any{"ab", ""}, []any{"", "ab"}}, {map[string]any{"a": "bc"}, map[string]any{"ab": "c"}}}
	// seam colliders for ANY separator byte a hasher might put between strings: ["a"+c, "b"] / ["a", c+"b"], {"a"+c: "b"} / {"a": c+"b"}
	seam := string(rune(r.IntN(33)))
	families = append(families, []any{[]any{"a" + seam, "b"}, []any{"a", seam + "b"}}, []any{map[string]any{"a" + seam: "b"}, map[string]any{"a": seam + "b"}},
		[]any{[]any{"a" + seam, "b"}, []any{"a", seam + "b"}}, []any{map[string]any{"a" + seam: "b"}, map[string]any{"a": seam + "b"}})
	fam := gen.Pick(r, families)
	pos := r.Perm(n)
	k := 0
	if r.IntN(4) > 0 { // colliders, each once: still unique
		for _, m := range fam {
			model[pos[k]] = gen.Clone(m)
			k++
		}
	}
	if r.IntN(2) == 0 { // ... and one of them (or an ordinary item) twice
		src := gen.Pick(r, []any{fam[0], fam[len(fam)-1], model[pos[n-1]]})
		model[pos[k]] = gen.Clone(src)
		model[pos[k+1]] = gen.Clone(src)
	}
	if r.IntN(4) == 0 {
		// the shortest arrangement that separates "a bucket per hash" from "the last index per hash": X, Y, X with X and Y
		// unequal colliders (the duplicate pair has the collider between its members)
		model = []any{gen.Clone(fam[0]), gen.Clone(fam[len(fam)-1]), gen.Clone(fam[0])}
		if r.IntN(2) == 0 {
			model = append(model, json.Number("7"))
		}
		r.Shuffle(len(model), func(i, j int) { model[i], model[j] = model[j], model[i] })
		if r.IntN(2) == 0 {
			model = []any{gen.Clone(fam[0]), gen.Clone(fam[len(fam)-1]), gen.Clone(fam[0])}
		}
	}
	return model
}

func (c12) enumConst(c *fw.Case, isEnum bool) {
	r := c.R
	opts := gen.ValueOpts{MaxDepth: 2, BigInts: false, MaxLen: 2}
	n := 1
	if isEnum {
		n = r.IntN(7)
	}
	list := make([]any, n)
	for i := range list {
		list[i] = gen.Value(r, opts, 0)
	}
	// instance: a member (other representation), a near miss of a member, or a free value
	var instModel any
	switch {
	case n > 0 && r.IntN(10) < 5:
		instModel = gen.Clone(list[r.IntN(n)])
	case n > 0 && r.IntN(10) < 6:
		instModel = nearMiss(r, list[r.IntN(n)], 0)
	default:
		instModel = gen.Value(r, opts, 0)
	}
	var tr gen.ReprTrace
	inst := gen.Repr(r, instModel, gen.ReprOpts{}, &tr)
	// aliasing inside one value: rows cut as prefixes of ONE backing array (s[:1], s[:2], ...) in the listed value and in the
	// instance; the two differ only beyond the shortest prefix (or not at all)
	var aliasedMember any
	if n > 0 && c.Idx%9 == 4 {
		k := 2 + r.IntN(3)
		sb, ub := make([]any, k), make([]any, k)
		for i := range sb {
			sb[i] = gen.Value(r, gen.ValueOpts{MaxDepth: 1, MaxLen: 2}, 1)
			ub[i] = gen.Clone(sb[i])
		}
		if r.IntN(2) == 0 {
			i := 1 + r.IntN(k-1)
			ub[i] = nearMiss(r, ub[i], 1)
		}
		rows := func(b []any) []any {
			out := make([]any, 0, len(b))
			for j := 1; j <= len(b); j++ {
				out = append(out, b[:j])
			}
			return out
		}
		list[0] = gen.Clone(rows(sb))
		aliasedMember = rows(sb)
		inst = rows(ub)
		tr = gen.ReprTrace{Kinds: map[string]bool{"aliased-prefix-rows": true}}
	}
	ic := canon.Must(inst)
	kw := "const"
	if isEnum {
		kw = "enum"
	}
	// (1) document path: values reach the library through Unmarshal
	var docVal any = list
	if !isEnum {
		docVal = list[0]
	}
	doc := gen.Text(map[string]any{kw: docVal})
	want := false
	hit := -1
	for i, e := range list {
		if canon.Must(e) == ic {
			want, hit = true, i
			break
		}
	}
	desc := gen.Describe(inst)
	check := func(path string, rs *jsonschema.Resolved, schemaDesc string) {
		got, ok := validate(c, rs, doc, inst, desc)
		if !ok {
			return
		}
		c.Eval(1)
		c.Digest(fmt.Sprint(got))
		if got != want {
			c.Violation(fmt.Sprintf("%s (%s): valid=%v but JSON equality with the listed values says %v", kw, path, got, want),
				map[string]any{"schema": schemaDesc, "instance": desc, "instance_canon": ic, "expected_valid": want, "hit_index": hit})
		}
	}
	if !(isEnum && n == 0) { // K3: an empty enum does not survive Marshal; the document path needs a non-empty list (Unmarshal keeps [] though)
	}
	rs, err, ok := compileDoc(c, doc, nil)
	if !ok {
		return
	}
	if err != nil {
		c.Violation("Unmarshal/Resolve refused a valid "+kw+" document: "+err.Error(), map[string]any{"schema": json.RawMessage(doc)})
		return
	}
	check("document", rs, doc)
	// (2) struct path: the Schema holds arbitrary Go representations
	s := &jsonschema.Schema{}
	var structDesc string
	if isEnum {
		s.Enum = make([]any, n)
		for i, e := range list {
			s.Enum[i] = gen.Repr(r, e, gen.ReprOpts{}, nil)
		}
		if aliasedMember != nil {
			s.Enum[0] = aliasedMember
		}
		structDesc = "Schema{Enum: " + gen.Describe(s.Enum) + "}"
	} else {
		v := gen.Repr(r, list[0], gen.ReprOpts{}, nil)
		if aliasedMember != nil {
			v = aliasedMember
		}
		s.Const = &v
		structDesc = "Schema{Const: &" + gen.Describe(v) + "}"
	}
	var rs2 *jsonschema.Resolved
	if !c.CallChecked("Resolve", structDesc, func() { rs2, err = s.Resolve(nil) }) {
		return
	}
	if err != nil {
		c.Violation("Resolve refused a valid Schema struct: "+err.Error(), structDesc)
		return
	}
	check("struct", rs2, structDesc)
	if want {
		c.Nontrivial(fmt.Sprintf("%s|hit%d/%d|%s", kw, hit, n, tr.Key()))
	} else if n > 0 {
		c.Nontrivial(fmt.Sprintf("%s|miss/%d|%s", kw, n, tr.Key()))
	}
	if c.Idx%1000 == 6 {
		c.Sample(map[string]any{"kind": kw, "schema": json.RawMessage(doc), "instance": desc, "expected_valid": want})
	}
}

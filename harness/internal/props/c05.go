package props

import (
	"bytes"
	"encoding/json"
	"fmt"
	"reflect"
	"strings"
	"sync"

	"github.com/google/jsonschema-go/jsonschema"

	"verif/internal/canon"
	"verif/internal/fw"
	"verif/internal/gen"
)

// C05: a schema survives a JSON round trip with its meaning intact.
type c05 struct{}

func init() { register(c05{}) }

func (c05) ID() string { return "C05" }
func (c05) Cases(t fw.Tier) int {
	return tierN(t, 40000, 1200000)
}
func (c05) Rule() string {
	return "even cases: a random valid Schema VALUE (every exported field populated by reflection in the ways its Go type allows: nil/empty/one/many, null const, raw defaults, unknown keywords incl. case variants of standard ones, " +
		"optionally PropertyOrder; exclusivity rules respected) -> m1=Marshal -> s2=Unmarshal -> m2=Marshal: m1 must equal m2 (bytes; JSON value when PropertyOrder is set), every populated field's keyword must be present in m1 " +
		"(parallel reflection walk; only validation-neutral empty containers may be dropped), Resolve(s) and Resolve(s2) must agree on success and on the verdict of 10 schema-directed instances. " +
		"odd cases: a generated schema DOCUMENT (both drafts, $defs/$ref, unevaluated*, float-spelled integers, boolean forms, unknown keywords) -> Unmarshal -> Marshal must equal the document as a JSON value after the documented normalisations " +
		"(true<->{}, false<->{not:{}}, 1.0->1, false/\"\"-valued keywords dropped), and both must give the same verdicts. " +
		"Non-trivial: >=3 populated fields with >=1 union-typed one (type, items, dependencies, const, integer keywords, properties, Extra); distinct by the set of (field, population mode)."
}
func (c05) Assumptions() []string {
	return []string{"the known-finding classes K3 (empty-but-present enum/anyOf/oneOf) and K4 (nil DependencyStrings value) are not generated; they are re-executed as pinned witnesses",
		"Extra keys never collide with keyword names; documents never put null where a subschema is expected", "instances come from the shared pools (numbers exact in float64)"}
}

var unionFields = map[string]bool{"Type": true, "Types": true, "Items": true, "ItemsArray": true, "DependencySchemas": true, "DependencyStrings": true, "Const": true,
	"MinLength": true, "MaxLength": true, "MinItems": true, "MaxItems": true, "MinProperties": true, "MaxProperties": true, "MinContains": true, "MaxContains": true, "Properties": true, "Extra": true}

// keywordOf returns the JSON keyword a Schema field is marshaled under (harness's own reading of the tags + the documented unions).
func keywordOf(f reflect.StructField) string {
	switch f.Name {
	case "Type", "Types":
		return "type"
	case "Items", "ItemsArray":
		return "items"
	case "DependencySchemas", "DependencyStrings":
		return "dependencies"
	case "Extra", "PropertyOrder":
		return ""
	}
	tag := f.Tag.Get("json")
	name, _, _ := strings.Cut(tag, ",")
	if name == "" || name == "-" {
		return ""
	}
	return name
}

var neutralEmpty = map[string]bool{"required": true, "allOf": true, "prefixItems": true, "examples": true, "$defs": true, "definitions": true, "patternProperties": true,
	"dependentRequired": true, "dependentSchemas": true, "$vocabulary": true, "dependencies": true}

// checkKeywords walks the Schema value and its marshaled JSON in parallel.
func checkKeywords(s *jsonschema.Schema, j any, path string, populated map[string]string) (problem string) {
	if s == nil {
		return ""
	}
	v := reflect.ValueOf(s).Elem()
	t := v.Type()
	obj, isObj := j.(map[string]any)
	if b, ok := j.(bool); ok {
		// boolean form: the value must be the empty schema / {not: {}} up to neutral empties
		obj = map[string]any{}
		if !b {
			obj["not"] = map[string]any{}
		}
		isObj = true
	}
	if !isObj {
		return fmt.Sprintf("%s: marshaled as %T, not a schema", path, j)
	}
	for i := 0; i < t.NumField(); i++ {
		f := t.Field(i)
		if !f.IsExported() {
			continue
		}
		fv := v.Field(i)
		if fv.IsZero() {
			continue
		}
		if f.Name == "Extra" {
			it := fv.MapRange()
			for it.Next() {
				if _, ok := obj[it.Key().String()]; !ok {
					return fmt.Sprintf("%s: unknown keyword %q lost", path, it.Key().String())
				}
			}
			if fv.Len() > 0 && path == "" {
				populated["Extra"] = "set"
			}
			continue
		}
		kw := keywordOf(f)
		if kw == "" {
			continue
		}
		mode := "set"
		empty := false
		switch fv.Kind() {
		case reflect.Slice, reflect.Map:
			if fv.Len() == 0 {
				empty = true
				mode = "empty"
			} else if fv.Len() > 1 {
				mode = "many"
			}
		}
		if path == "" {
			populated[f.Name] = mode
		}
		jv, present := obj[kw]
		if !present {
			if empty && neutralEmpty[kw] {
				continue
			}
			return fmt.Sprintf("%s: keyword %q (field %s, %s) missing from the marshaled JSON", path, kw, f.Name, mode)
		}
		switch x := fv.Interface().(type) {
		case *jsonschema.Schema:
			if p := checkKeywords(x, jv, path+"/"+kw, populated); p != "" {
				return p
			}
		case []*jsonschema.Schema:
			arr, ok := jv.([]any)
			if !ok || len(arr) != len(x) {
				return fmt.Sprintf("%s/%s: %d subschemas marshaled as %v", path, kw, len(x), jv)
			}
			for k, c := range x {
				if p := checkKeywords(c, arr[k], fmt.Sprintf("%s/%s/%d", path, kw, k), populated); p != "" {
					return p
				}
			}
		case map[string]*jsonschema.Schema:
			mm, ok := jv.(map[string]any)
			if !ok {
				return fmt.Sprintf("%s/%s: map marshaled as %T", path, kw, jv)
			}
			for name, c := range x {
				cj, ok := mm[name]
				if !ok {
					return fmt.Sprintf("%s/%s: entry %q lost", path, kw, name)
				}
				if p := checkKeywords(c, cj, fmt.Sprintf("%s/%s/%s", path, kw, name), populated); p != "" {
					return p
				}
			}
		}
	}
	return ""
}

// heldBytes: the slice a direct Schema.MarshalJSON call returned earlier in this process, and a private copy of its
// contents at that moment. Bytes handed to a caller belong to the caller: a later Marshal call must not write to them.
var heldBytes struct {
	sync.Mutex
	raw, copy []byte
	calls     int
}

func marshalSchema(c *fw.Case, s *jsonschema.Schema, what string) (data []byte, err error, ok bool) {
	ok = c.CallChecked("Marshal", what, func() { data, err = json.Marshal(s) })
	if !ok {
		return
	}
	heldBytes.Lock()
	defer heldBytes.Unlock()
	if heldBytes.raw != nil && !bytes.Equal(heldBytes.raw, heldBytes.copy) {
		c.Violation("the bytes returned by an earlier direct Schema.MarshalJSON call were overwritten by a later Marshal call",
			map[string]any{"held_then": string(heldBytes.copy), "held_now": string(heldBytes.raw), "later_call": what})
		heldBytes.raw = nil
		ok = false
		return
	}
	heldBytes.calls++
	if heldBytes.calls%3 == 0 {
		// the exported method called directly (json.Marshal copies what the method returns; a direct caller keeps the slice)
		var direct []byte
		var derr error
		if !c.CallChecked("Schema.MarshalJSON", what, func() { direct, derr = s.MarshalJSON() }) {
			ok = false
			return
		}
		if (derr == nil) != (err == nil) {
			c.Violation("Schema.MarshalJSON and json.Marshal disagree about whether the Schema can be marshaled", map[string]any{"method_error": fmt.Sprint(derr), "marshal_error": fmt.Sprint(err)})
			ok = false
			return
		}
		if derr == nil {
			heldBytes.raw, heldBytes.copy = direct, bytes.Clone(direct)
		}
	}
	return
}

func unmarshalSchema(c *fw.Case, data []byte) (s *jsonschema.Schema, err error, ok bool) {
	s = new(jsonschema.Schema)
	ok = c.CallChecked("Unmarshal", map[string]any{"schema": json.RawMessage(data)}, func() { err = json.Unmarshal(data, s) })
	return
}

func resolveSchema(c *fw.Case, s *jsonschema.Schema, what any) (rs *jsonschema.Resolved, err error, ok bool) {
	ok = c.CallChecked("Resolve", what, func() { rs, err = s.Resolve(nil) })
	return
}

// sameBehaviour compares two schemas on instances derived from the document text.
func sameBehaviour(c *fw.Case, a, b *jsonschema.Schema, docText string, what string) bool {
	ra, ea, ok := resolveSchema(c, a, docText)
	if !ok {
		return false
	}
	rb, eb, ok := resolveSchema(c, b, docText)
	if !ok {
		return false
	}
	if (ea == nil) != (eb == nil) {
		c.Violation(what+": Resolve succeeds on one side of the round trip only", map[string]any{"document": json.RawMessage(docText), "error_before": fmt.Sprint(ea), "error_after": fmt.Sprint(eb)})
		return false
	}
	if ea != nil {
		c.Count("unresolvable_both", 1)
		return true
	}
	doc := gen.Parse(docText)
	for _, im := range gen.Instances(c.R, doc, 10, false) {
		itext := gen.Text(im)
		inst := gen.Canonical(itext)
		va, ok := validate(c, ra, docText, inst, itext)
		if !ok {
			return false
		}
		vb, ok := validate(c, rb, docText, inst, itext)
		if !ok {
			return false
		}
		c.Eval(1)
		if va != vb {
			c.Violation(what+": the round-tripped schema gives a different verdict", map[string]any{"document": json.RawMessage(docText), "instance": json.RawMessage(itext), "valid_before": va, "valid_after": vb})
			return false
		}
	}
	return true
}

func (p c05) Run(c *fw.Case) {
	if c.Idx%6 == 5 {
		failedCalls(c) // call history: failed calls before the case must leave nothing behind
	}
	if c.Idx%2 == 0 {
		p.structTrip(c)
	} else {
		p.docTrip(c)
	}
}

func (c05) structTrip(c *fw.Case) {
	r := c.R
	o := &gen.StructOpts{Valid: true, MaxDepth: 3, NoRefs: true, PropOrder: c.Idx%6 == 0, Unknown: map[string]bool{}}
	s := gen.SchemaStruct(r, o)
	for u := range o.Unknown {
		c.Inconclusive("Schema has a field the generator does not know: " + u)
	}
	m1, err, ok := marshalSchema(c, s, "generated Schema value")
	if !ok {
		return
	}
	if err != nil {
		c.Violation("Marshal fails on a valid Schema value: "+err.Error(), map[string]any{"schema_go": fmt.Sprintf("%+v", s)})
		return
	}
	s2, err, ok := unmarshalSchema(c, m1)
	if !ok {
		return
	}
	if err != nil {
		c.Violation("Unmarshal rejects Marshal's own output: "+err.Error(), map[string]any{"m1": json.RawMessage(m1)})
		return
	}
	m2, err, ok := marshalSchema(c, s2, string(m1))
	if !ok {
		return
	}
	if err != nil {
		c.Violation("second Marshal fails: "+err.Error(), map[string]any{"m1": json.RawMessage(m1)})
		return
	}
	c.Eval(1)
	hasOrder := bytes.Contains(m1, []byte(`"properties"`)) && o.PropOrder
	if !hasOrder && !bytes.Equal(m1, m2) {
		c.Violation("Marshal(Unmarshal(Marshal(s))) differs from Marshal(s) (bytes, no PropertyOrder)", map[string]any{"m1": json.RawMessage(m1), "m2": json.RawMessage(m2)})
		return
	}
	if canon.Must(gen.Parse(string(m1))) != canon.Must(gen.Parse(string(m2))) {
		c.Violation("Marshal(Unmarshal(Marshal(s))) differs from Marshal(s) as a JSON value", map[string]any{"m1": json.RawMessage(m1), "m2": json.RawMessage(m2)})
		return
	}
	populated := map[string]string{}
	if prob := checkKeywords(s, gen.Parse(string(m1)), "", populated); prob != "" {
		c.Violation("a keyword of the Schema value is missing from its JSON: "+prob, map[string]any{"m1": json.RawMessage(m1), "schema_go": fmt.Sprintf("%+v", s)})
		return
	}
	if !sameBehaviour(c, s, s2, string(m1), "struct round trip") {
		return
	}
	union := false
	keys := sortedKeys(populated)
	var kb strings.Builder
	for _, k := range keys {
		if unionFields[k] {
			union = true
		}
		kb.WriteString(k + ":" + populated[k] + ",")
	}
	if len(keys) >= 3 && union {
		c.Nontrivial("s|" + kb.String())
	}
	if c.Idx%2000 == 0 {
		c.Sample(map[string]any{"kind": "struct", "m1": json.RawMessage(m1)})
	}
}

// normalizeDoc applies the documented normalisations at schema positions.
func normalizeDoc(doc any) any {
	return mapSchemas(doc, nil, func(n any, _ []string) any {
		switch x := n.(type) {
		case bool:
			if x {
				return map[string]any{}
			}
			return map[string]any{"not": map[string]any{}}
		case map[string]any:
			for k, v := range x {
				switch vv := v.(type) {
				case bool:
					if !vv && (k == "uniqueItems" || k == "deprecated" || k == "readOnly" || k == "writeOnly") {
						delete(x, k)
					}
				case string:
					if vv == "" {
						switch k {
						case "title", "description", "$comment", "format", "pattern", "$id", "$ref", "$anchor", "$schema", "contentEncoding", "contentMediaType", "$dynamicRef", "$dynamicAnchor":
							delete(x, k)
						}
					}
				}
			}
			return x
		}
		return n
	})
}

// (case variants under ASCII folding and under Unicode simple folding: U+017F LONG S folds to s, U+212A KELVIN SIGN to k)
var unknownKeys = []string{"x-a", "zzz", "$recursiveRef", "id", "Minimum", "TYPE", "x b", "extends", "additionalproperties", "Title", "con\u017ft", "item\u017f", "propertie\u017f", "\u017fchema", "min\u212a"}

func (c05) docTrip(c *fw.Case) {
	r := c.R
	draft := gen.D2020
	if c.Idx%4 == 3 {
		draft = gen.D7
	}
	doc := gen.Schema(r, gen.SchemaOpts{Draft: draft, MaxDepth: 3, Refs: r.IntN(2) == 0, Uneval: true})
	// decorate: unknown keywords at random schema positions, metadata
	nDec := r.IntN(3)
	doc = mapSchemas(doc, nil, func(n any, p []string) any {
		if m, ok := n.(map[string]any); ok && nDec > 0 && r.IntN(4) == 0 {
			nDec--
			m[gen.Pick(r, unknownKeys)] = gen.Value(r, gen.ValueOpts{MaxDepth: 2, MaxLen: 2}, 0)
		}
		return n
	})
	if m, ok := doc.(map[string]any); ok && draft == gen.D7 {
		m["$schema"] = gen.Schema7URI
	}
	// a third of the `false` subschemas as the object {"not": {}} (same meaning), half of those with an unknown keyword beside
	// it: the boolean folding of Marshal must not swallow either
	doc = mapSchemas(doc, nil, func(n any, p []string) any {
		if b, ok := n.(bool); ok && !b && len(p) > 0 && r.IntN(3) == 0 {
			m := map[string]any{"not": gen.Pick(r, []any{map[string]any{}, true})}
			if r.IntN(2) == 0 {
				m[gen.Pick(r, unknownKeys)] = gen.Pick(r, []any{"never valid", json.Number("1"), []any{}, nil})
			}
			return m
		}
		return n
	})
	// documents with an empty-but-present enum are the pinned known finding KF-C05-1 (Marshal drops it): not generated here
	doc = mapSchemas(doc, nil, func(n any, _ []string) any {
		if m, ok := n.(map[string]any); ok {
			if e, ok := m["enum"].([]any); ok && len(e) == 0 {
				delete(m, "enum")
			}
		}
		return n
	})
	text := gen.Text(doc)
	if r.IntN(4) == 0 {
		text = gen.TextShuffled(r, doc, r.IntN(3) > 0) // another textual layout of the same document
	}
	s, err, ok := unmarshalSchema(c, []byte(text))
	if !ok {
		return
	}
	if err != nil {
		c.Violation("Unmarshal rejects a valid schema document: "+err.Error(), map[string]any{"document": json.RawMessage(text)})
		return
	}
	m, err, ok := marshalSchema(c, s, text)
	if !ok {
		return
	}
	if err != nil {
		c.Violation("Marshal fails on an unmarshaled document: "+err.Error(), map[string]any{"document": json.RawMessage(text)})
		return
	}
	c.Eval(1)
	if c.Idx%8 == 5 {
		// the decode TARGET re-used: a boolean document replaces whatever the Schema variable held before (an object document
		// merges into it, as encoding/json does for every struct: not decided)
		used := new(jsonschema.Schema)
		if json.Unmarshal([]byte(text), used) == nil {
			for _, b := range []string{"true", "false", "true"} {
				var uerr error
				if !c.CallChecked("Unmarshal(reused target)", map[string]any{"first": json.RawMessage(text), "then": b}, func() { uerr = json.Unmarshal([]byte(b), used) }) {
					return
				}
				out, merr, ok := marshalSchema(c, used, "reused target after "+b)
				if !ok {
					return
				}
				c.Eval(1)
				if uerr != nil || merr != nil || string(out) != b {
					c.Violation(fmt.Sprintf("the document %s decoded into a Schema variable that held another document does not marshal as %s", b, b),
						map[string]any{"first_document": json.RawMessage(text), "then": b, "marshaled": string(out), "unmarshal_error": fmt.Sprint(uerr), "marshal_error": fmt.Sprint(merr)})
					return
				}
			}
		}
	}
	want := canon.Must(normalizeDoc(gen.Parse(text)))
	got := canon.Must(normalizeDoc(gen.Parse(string(m))))
	if want != got {
		c.Violation("Marshal(Unmarshal(d)) is not d up to the documented normalisations", map[string]any{"document": json.RawMessage(text), "marshaled": json.RawMessage(m)})
		return
	}
	s2, err, ok := unmarshalSchema(c, m)
	if !ok {
		return
	}
	if err != nil {
		c.Violation("Unmarshal rejects Marshal's output: "+err.Error(), map[string]any{"marshaled": json.RawMessage(m)})
		return
	}
	if !sameBehaviour(c, s, s2, text, "document round trip") {
		return
	}
	kws := map[string]bool{}
	keywordSet(doc, kws, 0)
	if len(kws) >= 3 {
		c.Nontrivial("d|" + strings.Join(sortedKeys(kws), ","))
	}
	if c.Idx%2000 == 1 {
		c.Sample(map[string]any{"kind": "document", "document": json.RawMessage(text), "marshaled": json.RawMessage(m)})
	}
}

// Pinned known findings.
func (c05) RunKnown(id string) (bool, string, error) {
	switch id {
	case "KF-C05-1": // K3: empty-but-present enum / anyOf / oneOf dropped by Marshal
		fails := []string{}
		for name, s := range map[string]*jsonschema.Schema{
			"enum":  {Enum: []any{}},
			"anyOf": {AnyOf: []*jsonschema.Schema{}},
			"oneOf": {OneOf: []*jsonschema.Schema{}},
		} {
			data, err := json.Marshal(s)
			if err != nil {
				return false, "", err
			}
			if !bytes.Contains(data, []byte(name)) {
				fails = append(fails, fmt.Sprintf("Schema{%s: empty} marshals as %s", name, data))
			}
		}
		var s jsonschema.Schema
		if err := json.Unmarshal([]byte(`{"enum":[]}`), &s); err != nil {
			return false, "", err
		}
		data, _ := json.Marshal(&s)
		if string(data) != `{"enum":[]}` {
			fails = append(fails, fmt.Sprintf(`{"enum":[]} round-trips to %s`, data))
		}
		return len(fails) > 0, strings.Join(fails, "; "), nil
	case "KF-C05-2": // K4: DependencyStrings value nil -> "null" -> decoded as the false schema
		s := &jsonschema.Schema{DependencyStrings: map[string][]string{"a": nil}}
		data, err := json.Marshal(s)
		if err != nil {
			return false, "", err
		}
		var s2 jsonschema.Schema
		if err := json.Unmarshal(data, &s2); err != nil {
			return true, "Unmarshal rejects " + string(data), nil
		}
		if _, ok := s2.DependencyStrings["a"]; !ok {
			return true, fmt.Sprintf("%s decodes with DependencySchemas[a]=%v instead of an empty string list", data, s2.DependencySchemas["a"] != nil), nil
		}
		return false, "", nil
	}
	return false, "", fmt.Errorf("unknown known-finding id %s", id)
}

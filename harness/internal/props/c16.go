package props

import (
	"bytes"
	"encoding/json"
	"fmt"
	"os"
	"reflect"
	"sort"
	"strings"
	"time"

	"log/slog"
	"math/big"

	"github.com/google/jsonschema-go/jsonschema"

	"verif/internal/fw"
	"verif/internal/gen"
	"verif/internal/jsonorder"
	"verif/internal/snap"
	"verif/internal/typecorpus"
)

// C16: For is a deterministic, isolating function of type and options.
type c16 struct{}

func init() { register(c16{}) }

func (c16) ID() string { return "C16" }
func (c16) Cases(t fw.Tier) int {
	return tierN(t, 30000, 800000)
}
func (c16) Processes(t fw.Tier) int { return 2 }
func (c16) Env(t fw.Tier, batch int) []string {
	if batch%3 == 2 {
		return []string{"JSONSCHEMAGODEBUG=typeschemasnull=1"}
	}
	return []string{"JSONSCHEMAGODEBUG="}
}
func (c16) Rule() string {
	return "each case takes a Go type (corpus: embeddings, repeated types, standard-library marshalers, user types with TypeSchemas overrides incl. an embedded override; reflect-built types with random tags and embedded corpus structs; recursive types; unsupported kinds at any depth) " +
		"and an option set (nil, IgnoreInvalidTypes, TypeSchemas overriding 1-2 named types; a third of the worker processes run with JSONSCHEMAGODEBUG=typeschemasnull=1) and checks on the observed results: " +
		"two calls with equal arguments marshal identically (also in a second process); no *Schema object is shared between two results or with TypeSchemas (own pointer walk); after overwriting every node of one result a third call still gives the original bytes; Resolve accepts the result; " +
		"a PARALLEL WALK of reflect.Type and schema checks, at every struct: property key set and PropertyOrder == the keys encoding/json emits for a fully populated addressable value, in order (observed via json.Decoder tokens, not re-implemented); " +
		"required == fields whose tag carries neither omitempty nor omitzero (harness's own tag split); type keyword per Go kind with 'null' added exactly for pointers and slices (per the documented debug setting); integer bounds per sized kind; fixed-array lengths; " +
		"every TypeSchemas / standard-library type occurrence replaced by a clone of its entry. Recursive types must yield an error (never a hang), unsupported kinds an error or, with IgnoreInvalidTypes, exactly the prunable fields are dropped. " +
		"Non-trivial: struct types with a tag option or embedding, or non-nil options; distinct by (type signature, option set, debug setting)."
}
func (c16) Assumptions() []string {
	return []string{"encoding/json's behaviour is observed on a fully populated value (all fields non-zero, pointers non-nil), so omitempty fields are present",
		"pinned known finding KF-C16-1 (JSON-name collisions / Go-shadowed fields with another JSON name) is not generated; embedded structs with a json name tag, embedded non-struct types and tag names that encoding/json rejects are ambiguous and not generated"}
}

var stdStringTypes = map[reflect.Type]bool{
	reflect.TypeFor[time.Time](): true, reflect.TypeFor[slog.Level](): true, reflect.TypeFor[big.Int](): true, reflect.TypeFor[big.Rat](): true, reflect.TypeFor[big.Float](): true,
	reflect.TypeFor[json.Number](): true, // built-in translation too, but to "number"
}

func oldNullMode() bool { return os.Getenv("JSONSCHEMAGODEBUG") == "typeschemasnull=1" }

type walkCtx struct {
	fieldTag  string // jsonschema description tag of the struct field being walked ("" if none)
	overrides map[reflect.Type]*jsonschema.Schema
	ignore    bool
	problems  []string
}

func (w *walkCtx) fail(path, format string, a ...any) {
	if len(w.problems) < 3 {
		w.problems = append(w.problems, path+": "+fmt.Sprintf(format, a...))
	}
}

func typesOf(s *jsonschema.Schema) []string {
	if s.Type != "" {
		return []string{s.Type}
	}
	return s.Types
}

// supported reports whether For can represent t at all (with IgnoreInvalidTypes the position is dropped otherwise).
func supported(t reflect.Type, overrides map[reflect.Type]*jsonschema.Schema, depth int) bool {
	for t.Kind() == reflect.Pointer {
		t = t.Elem()
	}
	if overrides[t] != nil || stdStringTypes[t] || depth > 20 {
		return true
	}
	switch t.Kind() {
	case reflect.Chan, reflect.Func, reflect.Complex64, reflect.Complex128, reflect.UnsafePointer, reflect.Invalid:
		return false
	case reflect.Map:
		return t.Key().Kind() == reflect.String && supported(t.Elem(), overrides, depth+1)
	case reflect.Slice, reflect.Array:
		return supported(t.Elem(), overrides, depth+1)
	}
	return true
}

func (w *walkCtx) walk(t reflect.Type, s *jsonschema.Schema, path string, depth int) {
	if s == nil {
		w.fail(path, "no schema for Go type %s", t)
		return
	}
	if depth > 30 {
		return
	}
	ptr := false
	for t.Kind() == reflect.Pointer {
		ptr = true
		t = t.Elem()
	}
	tag := w.fieldTag
	w.fieldTag = ""
	if tag != "" && s.Description != tag {
		w.fail(path, "field has the tag jsonschema:%q but the property's description is %q", tag, s.Description)
	}
	w.fieldTag = tag
	defer func() { w.fieldTag = "" }()
	expectTypes := func(base string, nullable bool) {
		got := typesOf(s)
		want := []string{base}
		if nullable {
			want = []string{"null", base}
		}
		if strings.Join(got, ",") != strings.Join(want, ",") {
			w.fail(path, "Go type %s (pointer=%v): type keyword %q, want %q", t, ptr, got, want)
		}
	}
	// overrides and standard-library types: a clone of the entry (+ null for pointers unless the old mode is on)
	if entry := w.overrides[t]; entry != nil || stdStringTypes[t] {
		var want *jsonschema.Schema
		if entry != nil {
			want = entry.CloneSchemas()
		} else {
			want = &jsonschema.Schema{Type: "string"}
			if t == reflect.TypeFor[json.Number]() {
				want = &jsonschema.Schema{Type: "number"} // a string in Go, a number in JSON
			}
			if t == reflect.TypeFor[big.Int]() && oldNullMode() {
				want = &jsonschema.Schema{Types: []string{"null", "string"}}
			}
		}
		if ptr && !oldNullMode() {
			if want.Type != "" {
				want.Types = []string{"null", want.Type}
				want.Type = ""
			} else if !contains(want.Types, "null") {
				want.Types = append([]string{"null"}, want.Types...)
			}
		}
		if w.fieldTag != "" {
			want.Description = w.fieldTag // a jsonschema tag on the field becomes the property's description
		}
		wb, _ := json.Marshal(want)
		gb, _ := json.Marshal(s)
		if !bytes.Equal(wb, gb) {
			w.fail(path, "occurrence of %s is %s, want (a clone of) its entry %s", t, gb, wb)
		}
		return
	}
	intBound := func(lo, hi float64, hasLo, hasHi bool) {
		if hasLo != (s.Minimum != nil) || hasLo && *s.Minimum != lo {
			w.fail(path, "Go kind %s: minimum %v, want %v (present=%v)", t.Kind(), deref(s.Minimum), lo, hasLo)
		}
		if hasHi != (s.Maximum != nil) || hasHi && *s.Maximum != hi {
			w.fail(path, "Go kind %s: maximum %v, want %v (present=%v)", t.Kind(), deref(s.Maximum), hi, hasHi)
		}
	}
	switch t.Kind() {
	case reflect.Bool:
		expectTypes("boolean", ptr)
	case reflect.String:
		expectTypes("string", ptr)
	case reflect.Float32, reflect.Float64:
		expectTypes("number", ptr)
	case reflect.Int, reflect.Int64:
		expectTypes("integer", ptr)
		intBound(0, 0, false, false)
	case reflect.Int8, reflect.Int16, reflect.Int32:
		expectTypes("integer", ptr)
		b := uint(t.Bits())
		intBound(-float64(uint64(1)<<(b-1)), float64(uint64(1)<<(b-1))-1, true, true)
	case reflect.Uint, reflect.Uint64, reflect.Uintptr:
		expectTypes("integer", ptr)
		intBound(0, 0, true, false)
	case reflect.Uint8, reflect.Uint16, reflect.Uint32:
		expectTypes("integer", ptr)
		intBound(0, float64(uint64(1)<<uint(t.Bits()))-1, true, true)
	case reflect.Interface:
		if s.Type != "" || s.Types != nil {
			w.fail(path, "interface type has a type keyword %q", typesOf(s))
		}
	case reflect.Map:
		expectTypes("object", ptr)
		w.fieldTag = ""
		w.walk(t.Elem(), s.AdditionalProperties, path+"/additionalProperties", depth+1)
	case reflect.Slice:
		expectTypes("array", ptr || !oldNullMode())
		w.fieldTag = ""
		w.walk(t.Elem(), s.Items, path+"/items", depth+1)
	case reflect.Array:
		expectTypes("array", ptr)
		if s.MinItems == nil || s.MaxItems == nil || *s.MinItems != t.Len() || *s.MaxItems != t.Len() {
			w.fail(path, "array of length %d: minItems/maxItems %v/%v", t.Len(), derefInt(s.MinItems), derefInt(s.MaxItems))
		}
		w.fieldTag = ""
		w.walk(t.Elem(), s.Items, path+"/items", depth+1)
	case reflect.Struct:
		expectTypes("object", ptr)
		w.fieldTag = ""
		w.walkStruct(t, s, path, depth)
	default:
		w.fail(path, "unsupported kind %s has a schema", t.Kind())
	}
}

func deref(p *float64) any {
	if p == nil {
		return nil
	}
	return *p
}
func derefInt(p *int) any {
	if p == nil {
		return nil
	}
	return *p
}
func contains(a []string, s string) bool {
	for _, x := range a {
		if x == s {
			return true
		}
	}
	return false
}

// observedKeys marshals a fully populated addressable value of struct type t and returns the emitted keys in order.
func observedKeys(c *fw.Case, t reflect.Type) ([]string, bool) {
	p := reflect.New(t)
	gen.Fill(c.SubRand("observer"), p.Elem(), gen.VFull, 0)
	data, err := json.Marshal(p.Interface())
	if err != nil {
		return nil, false
	}
	v, err := jsonorder.Decode(data)
	if err != nil {
		return nil, false
	}
	obj, ok := v.(*jsonorder.Object)
	if !ok {
		return nil, false
	}
	return obj.Keys, true
}

func (w *walkCtx) walkStruct(t reflect.Type, s *jsonschema.Schema, path string, depth int) {
	if s.AdditionalProperties == nil {
		w.fail(path, "struct %s: additionalProperties missing (objects must be closed)", t)
	} else if b, _ := json.Marshal(s.AdditionalProperties); string(b) != "false" {
		w.fail(path, "struct %s: additionalProperties is %s, want false", t, b)
	}
	fields := structFieldsOf(t)
	// fields promoted from an embedded struct that has a TypeSchemas override take the override's properties:
	// whether they are required is not specified, and their Go types are irrelevant
	fromOverride := map[string]bool{}
	for i := 0; i < t.NumField(); i++ {
		f := t.Field(i)
		ft := f.Type
		if ft.Kind() == reflect.Pointer {
			ft = ft.Elem()
		}
		if f.Anonymous && w.overrides[ft] != nil {
			for name := range w.overrides[ft].Properties {
				fromOverride[name] = true
			}
			for _, pf := range structFieldsOf(ft) {
				fromOverride[pf.name] = true
			}
		}
	}
	// ... and the entry is SUBSTITUTED for the embedded struct (by value or through a pointer): each of its properties is
	// there as a clone, and a field the embedded struct promotes that the entry does not name is absent
	own := map[string]bool{}
	for i := 0; i < t.NumField(); i++ {
		if f := t.Field(i); !f.Anonymous {
			name, _, _ := strings.Cut(f.Tag.Get("json"), ",")
			if name == "" {
				name = f.Name
			}
			own[name] = true
		}
	}
	for i := 0; i < t.NumField(); i++ {
		f := t.Field(i)
		ft := f.Type
		if ft.Kind() == reflect.Pointer {
			ft = ft.Elem()
		}
		entry := w.overrides[ft]
		if !f.Anonymous || entry == nil || ft.Kind() != reflect.Struct || f.Tag.Get("json") != "" {
			continue
		}
		for name, want := range entry.Properties {
			if own[name] {
				continue
			}
			got, ok := s.Properties[name]
			if !ok {
				w.fail(path, "struct %s embeds %s, which has a TypeSchemas entry, but the entry's property %q is missing", t, f.Type, name)
				continue
			}
			wb, _ := json.Marshal(want)
			gb, _ := json.Marshal(got)
			if !bytes.Equal(wb, gb) {
				w.fail(path, "struct %s embeds %s: property %q is %s, want (a clone of) the entry's %s", t, f.Type, name, gb, wb)
			}
		}
		for _, pf := range structFieldsOf(ft) {
			if _, named := entry.Properties[pf.name]; !named && !own[pf.name] {
				if _, present := s.Properties[pf.name]; present {
					w.fail(path, "struct %s embeds %s, which has a TypeSchemas entry without %q, yet the property is there (the entry was not substituted)", t, f.Type, pf.name)
				}
			}
		}
	}
	var wantKeys, wantReq []string
	for _, f := range fields {
		if w.ignore && !supported(f.typ, w.overrides, 0) {
			continue
		}
		if fromOverride[f.name] {
			continue
		}
		wantKeys = append(wantKeys, f.name)
		if !f.optional {
			wantReq = append(wantReq, f.name)
		}
	}
	for name := range fromOverride {
		if _, ok := s.Properties[name]; ok {
			wantKeys = append(wantKeys, name)
		}
	}
	gotKeys := sortedKeys(s.Properties)
	sortedWant := append([]string{}, wantKeys...)
	sort.Strings(sortedWant)
	if strings.Join(gotKeys, "\x00") != strings.Join(sortedWant, "\x00") {
		w.fail(path, "struct %s: properties %q, want %q", t, gotKeys, sortedWant)
		return
	}
	var gotReq []string
	for _, q := range s.Required {
		if !fromOverride[q] {
			gotReq = append(gotReq, q)
		}
	}
	sort.Strings(gotReq)
	sort.Strings(wantReq)
	if strings.Join(gotReq, "\x00") != strings.Join(wantReq, "\x00") {
		w.fail(path, "struct %s: required %q, want %q (fields without omitempty/omitzero)", t, gotReq, wantReq)
	}
	for _, f := range fields {
		if sub, ok := s.Properties[f.name]; ok && !fromOverride[f.name] {
			w.fieldTag = f.desc
			w.walk(f.typ, sub, path+"/properties/"+f.name, depth+1)
			w.fieldTag = ""
		}
	}
}

// JSON-name collisions between differently named fields (what the inferred schema SAYS about them is the pinned known
// finding KF-C04-1 / KF-C16-1 and is not compared here): whatever For returns without error must still be a schema that
// Resolve and Marshal accept, twice the same.
type c16Collide struct {
	ID     int    `json:"id"`
	Legacy string `json:"id,omitempty"`
	Name   string `json:"name"`
}
type c16CollideThree struct {
	A int     `json:"x"`
	B string  `json:"x"`
	C float64 `json:"x,omitempty"`
	D bool    `json:"d"`
}

type c16CollideBase struct {
	ID   int    `json:"id"`
	Name string `json:"name"`
	Note string `json:"note"`
}
type c16CollideOuter struct {
	c16CollideBaseAlias
	Key   string `json:"id"`
	Label string `json:"name"`
}
type c16CollideBaseAlias = C16CollideBase
type C16CollideBase c16CollideBase
type c16CollideFlat struct {
	X  int `json:"x"`
	Y  int `json:"y"`
	X2 int `json:"x"`
	Y2 int `json:"y"`
	Z  int `json:"z"`
}

func (c16) collisions(c *fw.Case) {
	t := gen.Pick(c.R, []reflect.Type{reflect.TypeFor[c16CollideOuter](), reflect.TypeFor[c16CollideFlat](), reflect.TypeFor[[]c16CollideOuter](), reflect.TypeFor[c16Collide](), reflect.TypeFor[[]c16Collide](), reflect.TypeFor[c16CollideThree](), reflect.TypeFor[map[string]*c16CollideThree](), reflect.TypeFor[struct {
		In c16Collide `json:"in"`
	}]()})
	var prev []byte
	for rep := 0; rep < 2; rep++ {
		var s *jsonschema.Schema
		var err error
		if !c.CallChecked("ForType", map[string]any{"type": t.String(), "json_name_collision": true}, func() { s, err = jsonschema.ForType(t, nil) }) {
			return
		}
		c.Eval(1)
		if err != nil {
			c.Count("collision_types_refused_by_For", 1)
			return
		}
		data, merr, ok := marshalSchema(c, s, "schema inferred for "+t.String())
		if !ok {
			return
		}
		if merr != nil {
			c.Violation("Marshal rejects the schema For returned without error: "+merr.Error(), map[string]any{"type": t.String()})
			return
		}
		if _, rerr, ok := resolveSchema(c, s, t.String()); !ok {
			return
		} else if rerr != nil {
			c.Violation("Resolve rejects the schema For returned without error: "+rerr.Error(), map[string]any{"type": t.String(), "schema": json.RawMessage(data)})
			return
		}
		if rep == 1 && !bytes.Equal(prev, data) {
			c.Violation("two ForType calls with equal arguments give different results", map[string]any{"type": t.String(), "first": json.RawMessage(prev), "second": json.RawMessage(data)})
			return
		}
		prev = data
	}
	c.Nontrivial("json-name-collision|" + t.String())
}

func (p c16) Run(c *fw.Case) {
	r := c.R
	if c.Idx%25 == 3 {
		p.collisions(c)
		return
	}
	kind := c.Idx % 10
	switch {
	case kind == 8:
		p.recursive(c)
		return
	case kind == 9:
		p.unsupported(c)
		return
	}
	var t reflect.Type
	var opts *jsonschema.ForOptions
	label := ""
	switch {
	case kind == 0:
		t, label = gen.Pick(r, typecorpus.PlainData), "corpus"
	case kind == 1:
		t, label = gen.Pick(r, typecorpus.WithStd), "corpus-std"
	case kind == 2:
		// TypeSchemas overrides, incl. an embedded override and a type that occurs several times
		t = gen.Pick(r, []reflect.Type{reflect.TypeFor[typecorpus.WithCustom](), reflect.TypeFor[typecorpus.WithCustomPtr](), reflect.TypeFor[[]typecorpus.WithCustomPtr](), reflect.TypeFor[typecorpus.EmbCustomObj](), reflect.TypeFor[typecorpus.EmbCustomObj2](), reflect.TypeFor[typecorpus.EmbCustomObj2Ptr](), reflect.TypeFor[[]typecorpus.EmbCustomObj2Ptr](), reflect.TypeFor[typecorpus.Repeats](), reflect.TypeFor[[]*typecorpus.WithCustom](), reflect.TypeFor[map[string]typecorpus.Repeats]()})
		// the caller's slices may have spare capacity (append-built, or decoded from JSON)
		customTypes := make([]string, 0, 2+r.IntN(4))
		customTypes = append(customTypes, "integer", "string")
		if r.IntN(2) == 0 {
			customTypes = append(customTypes, "boolean")
		}
		opts = &jsonschema.ForOptions{TypeSchemas: map[reflect.Type]*jsonschema.Schema{
			reflect.TypeFor[typecorpus.Custom]():    {Types: customTypes, Description: "custom", Required: append(make([]string, 0, 4), "zz"), Enum: append(make([]any, 0, 4), 7.0, "seven", true)},
			reflect.TypeFor[typecorpus.CustomObj](): {Type: "object", Properties: map[string]*jsonschema.Schema{"p": {Type: "integer"}, "q": {Type: "integer", AllOf: []*jsonschema.Schema{{Minimum: jsonschema.Ptr(1.0)}}}}},
			reflect.TypeFor[typecorpus.Inner]():     {Type: "object", Properties: map[string]*jsonschema.Schema{"x": {Type: "integer"}}, AdditionalProperties: &jsonschema.Schema{}},
			// an entry that names OTHER properties than the struct's fields: substitution is visible
			reflect.TypeFor[typecorpus.CustomObj2](): {Type: "object", Properties: map[string]*jsonschema.Schema{"p": {Type: "string", Description: "the entry's p"}, "extra": {Type: "boolean"}}},
		}}
		if r.IntN(2) == 0 {
			opts.TypeSchemas[reflect.TypeFor[time.Time]()] = &jsonschema.Schema{Type: "string", Format: "date-time"}
		}
		if r.IntN(3) == 0 {
			// the caller's entry wins over every built-in translation, whatever the size of the table
			t = gen.Pick(r, []reflect.Type{reflect.TypeFor[typecorpus.StdTypes](), reflect.TypeFor[typecorpus.Repeats](), reflect.TypeFor[[]typecorpus.StdTypes]()})
			std := []reflect.Type{reflect.TypeFor[time.Time](), reflect.TypeFor[slog.Level](), reflect.TypeFor[big.Int](), reflect.TypeFor[big.Rat](), reflect.TypeFor[big.Float]()}
			for _, i := range r.Perm(len(std))[:1+r.IntN(len(std))] {
				opts.TypeSchemas[std[i]] = &jsonschema.Schema{Types: []string{"string", "number"}, Description: "caller's " + std[i].String()}
			}
		}
		if r.IntN(5) == 0 {
			// kinds For cannot translate (map[int]bool, complex128 with marshalers) WITH entries, IgnoreInvalidTypes on or off;
			// and an entry written in the draft-07 tuple form of items (ItemsArray)
			t = gen.Pick(r, []reflect.Type{reflect.TypeFor[typecorpus.WithInvalidKinds](), reflect.TypeFor[[]typecorpus.WithInvalidKinds](), reflect.TypeFor[map[string]typecorpus.WithInvalidKinds]()})
			opts.TypeSchemas[reflect.TypeFor[typecorpus.IDSet]()] = &jsonschema.Schema{Type: "array", Items: &jsonschema.Schema{Type: "integer"}}
			opts.TypeSchemas[reflect.TypeFor[typecorpus.Point]()] = &jsonschema.Schema{Type: "array", ItemsArray: []*jsonschema.Schema{{Type: "number"}, {Type: "number", Description: "imaginary part"}}}
			opts.IgnoreInvalidTypes = r.IntN(2) == 0
		}
		if r.IntN(4) == 0 {
			// entries keyed by UNNAMED types (slice, map, array, anonymous struct, interface): substituted like any other
			t = gen.Pick(r, []reflect.Type{reflect.TypeFor[typecorpus.UnnamedKinds](), reflect.TypeFor[[]typecorpus.UnnamedKinds](), reflect.TypeFor[map[string][]string]()})
			un := []reflect.Type{reflect.TypeFor[[]string](), reflect.TypeFor[map[string]int](), reflect.TypeFor[[]byte](), reflect.TypeFor[any](), reflect.TypeFor[[2]float32](), reflect.TypeFor[struct {
				Q int `json:"q"`
			}]()}
			for _, i := range r.Perm(len(un))[:1+r.IntN(len(un))] {
				opts.TypeSchemas[un[i]] = &jsonschema.Schema{Type: "string", Description: "caller's " + un[i].String()}
			}
		}
		for k := r.IntN(12); k > 0 && r.IntN(2) == 0; k-- { // unrelated entries
			opts.TypeSchemas[gen.Pick(r, decoyTypes)] = &jsonschema.Schema{Type: "boolean", Description: "unrelated"}
		}
		label = "overrides"
	default:
		t, label = gen.SafeRandType(r, gen.TypeOpts{MaxDepth: 2 + r.IntN(3)}), "reflect"
	}
	if opts == nil && r.IntN(3) == 0 {
		opts = &jsonschema.ForOptions{IgnoreInvalidTypes: r.IntN(2) == 0}
	}
	if c.Idx%5 == 2 {
		decoyInfer(c, t) // call history: the same type inferred with other options first
	}
	mode := "default"
	if oldNullMode() {
		mode = "typeschemasnull=1"
	}
	call := func() (*jsonschema.Schema, error, bool) {
		var s *jsonschema.Schema
		var err error
		ok := c.CallChecked("ForType", map[string]any{"type": t.String(), "debug": mode}, func() { s, err = jsonschema.ForType(t, opts) })
		return s, err, ok
	}
	var optsBefore string
	if opts != nil {
		optsBefore = snap.Of(opts.TypeSchemas)
	}
	s1, err, ok := call()
	if !ok {
		return
	}
	wit := func(extra map[string]any) map[string]any {
		w := map[string]any{"type": t.String(), "debug": mode, "options": fmt.Sprintf("%+v", opts)}
		for k, v := range extra {
			w[k] = v
		}
		return w
	}
	if err != nil {
		c.Violation("ForType fails for a supported type: "+err.Error(), wit(nil))
		return
	}
	b1, merr := json.Marshal(s1)
	if merr != nil {
		c.Violation("the inferred schema does not marshal: "+merr.Error(), wit(nil))
		return
	}
	c.Digest(string(b1))
	s2, err2, ok := call()
	if !ok {
		return
	}
	b2, _ := json.Marshal(s2)
	c.Eval(1)
	if err2 != nil || !bytes.Equal(b1, b2) {
		c.Violation("two ForType calls with equal arguments give different results", wit(map[string]any{"first": json.RawMessage(b1), "second": string(b2)}))
		return
	}
	// isolation
	p1, p2 := snap.Pointers[jsonschema.Schema](s1), snap.Pointers[jsonschema.Schema](s2)
	for q := range p2 {
		if p1[q] {
			c.Violation("two results share a Schema object", wit(map[string]any{"schema": json.RawMessage(b1)}))
			return
		}
	}
	if opts != nil {
		for _, entry := range opts.TypeSchemas {
			for q := range snap.Pointers[jsonschema.Schema](entry) {
				if p1[q] || p2[q] {
					c.Violation("a result shares a Schema object with ForOptions.TypeSchemas", wit(map[string]any{"schema": json.RawMessage(b1)}))
					return
				}
			}
		}
	}
	var entryBefore string
	if opts != nil {
		entryBefore = snap.Of(opts.TypeSchemas)
		if entryBefore != optsBefore {
			c.Violation("ForType modified the caller's ForOptions.TypeSchemas", wit(map[string]any{"before": optsBefore, "after": entryBefore}))
			return
		}
	}
	// Resolve accepts the result (it is a tree)
	if _, rerr, ok := resolveSchema(c, s1, string(b1)); !ok {
		return
	} else if rerr != nil {
		c.Violation("Resolve rejects the inferred schema: "+rerr.Error(), wit(map[string]any{"schema": json.RawMessage(b1)}))
		return
	}
	// parallel walk
	w := &walkCtx{ignore: opts != nil && opts.IgnoreInvalidTypes}
	if opts != nil {
		w.overrides = opts.TypeSchemas
	}
	w.walk(t, s1, "", 0)
	// key order vs encoding/json at every struct reachable through properties (top level and nested named structs)
	p.checkOrder(c, t, s1, w, "", 0)
	if len(w.problems) > 0 {
		c.Violation("the inferred schema does not describe the type: "+w.problems[0], wit(map[string]any{"schema": json.RawMessage(b1), "problems": w.problems}))
		return
	}
	// overwrite every node of the first result; a third call must be unaffected
	if opts == nil || len(opts.TypeSchemas) == 0 {
		// without caller-supplied entries every number in the result was made by this call: writing THROUGH the pointers
		// (a caller tightening a bound in place) must not reach the next result either
		writeThroughNumbers(s1, map[*jsonschema.Schema]bool{})
	}
	overwriteAll(s1, map[*jsonschema.Schema]bool{})
	s3, err3, ok := call()
	if !ok {
		return
	}
	b3, _ := json.Marshal(s3)
	if err3 != nil || !bytes.Equal(b1, b3) {
		c.Violation("mutating a result changed what the next call returns (sharing with internal tables)", wit(map[string]any{"first": json.RawMessage(b1), "after_mutation": string(b3)}))
		return
	}
	if opts != nil && snap.Of(opts.TypeSchemas) != entryBefore {
		c.Violation("mutating a result changed the caller's TypeSchemas", wit(nil))
		return
	}
	sig := gen.TypeSig(t, 0)
	if strings.ContainsAny(sig, "{E,") || opts != nil {
		c.Nontrivial(fmt.Sprintf("%s|%s|opts=%v|%s", label, sig, opts != nil, mode))
	}
	c.Count("types:"+label, 1)
	if c.Idx%2000 == 0 {
		c.Sample(map[string]any{"type": t.String(), "schema": json.RawMessage(b1), "debug": mode})
	}
}

// checkOrder compares PropertyOrder at every struct with the key order encoding/json emits.
func (c16) checkOrder(c *fw.Case, t reflect.Type, s *jsonschema.Schema, w *walkCtx, path string, depth int) {
	if s == nil || depth > 12 {
		return
	}
	for t.Kind() == reflect.Pointer {
		t = t.Elem()
	}
	if w.overrides[t] != nil || stdStringTypes[t] {
		return
	}
	switch t.Kind() {
	case reflect.Struct:
		if keys, ok := observedKeys(c, t); ok {
			want := keys
			if w.ignore {
				want = nil
				sup := map[string]bool{}
				for _, f := range structFieldsOf(t) {
					sup[f.name] = supported(f.typ, w.overrides, 0)
				}
				for _, k := range keys {
					if sup[k] {
						want = append(want, k)
					}
				}
			}
			never := map[string]bool{} // a zero-length array with omitempty is always "empty": encoding/json can never emit it
			hasEmbOverride := false
			for _, f := range structFieldsOf(t) {
				if f.omitEmpty && f.typ.Kind() == reflect.Array && f.typ.Len() == 0 {
					never[f.name] = true
				}
			}
			for i := 0; i < t.NumField(); i++ {
				ft := t.Field(i).Type
				if ft.Kind() == reflect.Pointer {
					ft = ft.Elem()
				}
				if t.Field(i).Anonymous && w.overrides[ft] != nil {
					hasEmbOverride = true // the override's properties are listed in sorted order by documentation
				}
			}
			var got []string
			for _, k := range s.PropertyOrder {
				if !never[k] {
					got = append(got, k)
				}
			}
			if !hasEmbOverride && strings.Join(got, "\x00") != strings.Join(want, "\x00") {
				w.fail(path, "struct %s: PropertyOrder %q, but encoding/json emits the keys %q", t, s.PropertyOrder, want)
			}
		}
		for _, f := range structFieldsOf(t) {
			c16{}.checkOrder(c, f.typ, s.Properties[f.name], w, path+"/properties/"+f.name, depth+1)
		}
	case reflect.Slice, reflect.Array:
		c16{}.checkOrder(c, t.Elem(), s.Items, w, path+"/items", depth+1)
	case reflect.Map:
		c16{}.checkOrder(c, t.Elem(), s.AdditionalProperties, w, path+"/additionalProperties", depth+1)
	}
}

func (c16) recursive(c *fw.Case) {
	r := c.R
	t := gen.Pick(r, typecorpus.Recursive)
	for _, opts := range []*jsonschema.ForOptions{nil, {IgnoreInvalidTypes: true}} {
		var err error
		var s *jsonschema.Schema
		if !c.CallChecked("ForType", map[string]any{"type": t.String(), "recursive": true}, func() { s, err = jsonschema.ForType(t, opts) }) {
			return
		}
		c.Eval(1)
		if err == nil {
			b, _ := json.Marshal(s)
			c.Violation("a recursive type did not yield an error", map[string]any{"type": t.String(), "schema": string(b)})
			return
		}
	}
	c.Digest("recursive-error")
	c.Nontrivial("recursive|" + t.String())
}

func (p c16) unsupported(c *fw.Case) {
	r := c.R
	if r.IntN(8) == 0 {
		// malformed jsonschema tags: an error with and without IgnoreInvalidTypes
		t := gen.Pick(r, typecorpus.BadTags)
		for _, opts := range []*jsonschema.ForOptions{nil, {IgnoreInvalidTypes: true}} {
			var err error
			if !c.CallChecked("ForType", map[string]any{"type": t.String(), "bad_tag": true}, func() { _, err = jsonschema.ForType(t, opts) }) {
				return
			}
			c.Eval(1)
			if err == nil {
				c.Violation("a malformed jsonschema tag did not yield an error", map[string]any{"type": t.String()})
				return
			}
		}
		c.Digest("bad-tag-error")
		c.Nontrivial("bad-tag|" + t.String())
		return
	}
	t := gen.Pick(r, typecorpus.Unsupported)
	var err error
	var s *jsonschema.Schema
	if !c.CallChecked("ForType", map[string]any{"type": t.String()}, func() { s, err = jsonschema.ForType(t, nil) }) {
		return
	}
	c.Eval(1)
	if err == nil {
		b, _ := json.Marshal(s)
		c.Violation("an unsupported kind yields neither an error nor (without IgnoreInvalidTypes) an omission", map[string]any{"type": t.String(), "schema": string(b)})
		return
	}
	opts := &jsonschema.ForOptions{IgnoreInvalidTypes: true}
	if !c.CallChecked("ForType(IgnoreInvalidTypes)", map[string]any{"type": t.String()}, func() { s, err = jsonschema.ForType(t, opts) }) {
		return
	}
	c.Eval(1)
	if err != nil {
		c.Violation("IgnoreInvalidTypes still fails: "+err.Error(), map[string]any{"type": t.String()})
		return
	}
	if !supported(t, nil, 0) {
		if s != nil {
			b, _ := json.Marshal(s)
			c.Violation("an unsupported top-level type was not dropped with IgnoreInvalidTypes", map[string]any{"type": t.String(), "schema": string(b)})
		}
		c.Digest("dropped")
		c.Nontrivial("unsupported-top|" + t.String())
		return
	}
	w := &walkCtx{ignore: true}
	w.walk(t, s, "", 0)
	p.checkOrder(c, t, s, w, "", 0)
	b, _ := json.Marshal(s)
	c.Digest(string(b))
	if len(w.problems) > 0 {
		c.Violation("IgnoreInvalidTypes pruned the wrong fields: "+w.problems[0], map[string]any{"type": t.String(), "schema": json.RawMessage(b), "problems": w.problems})
		return
	}
	c.Nontrivial("unsupported-pruned|" + t.String())
}

// Pinned known finding KF-C16-1 (the K1 class seen from C16's side).
func (c16) RunKnown(id string) (bool, string, error) {
	if id != "KF-C16-1" {
		return false, "", fmt.Errorf("unknown known-finding id %s", id)
	}
	type A struct {
		X int `json:"ax"`
	}
	type T struct { // T.X shadows A.X in Go, but the JSON names differ: encoding/json emits both
		A
		X string `json:"tx"`
	}
	s, err := jsonschema.ForType(reflect.TypeFor[T](), nil)
	if err != nil {
		return false, "", err
	}
	data, _ := json.Marshal(&T{A: A{1}, X: "s"})
	v, _ := jsonorder.Decode(data)
	keys := v.(*jsonorder.Object).Keys
	if strings.Join(keys, ",") != strings.Join(s.PropertyOrder, ",") {
		return true, fmt.Sprintf("encoding/json emits %q, the schema lists %q (required %q)", keys, s.PropertyOrder, s.Required), nil
	}
	return false, "", nil
}

// writeThroughNumbers changes the value behind every *float64 / *int keyword of the tree.
func writeThroughNumbers(s *jsonschema.Schema, seen map[*jsonschema.Schema]bool) {
	if s == nil || seen[s] {
		return
	}
	seen[s] = true
	v := reflect.ValueOf(s).Elem()
	for i := 0; i < v.NumField(); i++ {
		if !v.Type().Field(i).IsExported() {
			continue
		}
		switch x := v.Field(i).Interface().(type) {
		case *float64:
			if x != nil {
				*x += 1000.5
			}
		case *int:
			if x != nil {
				*x += 1000
			}
		case *jsonschema.Schema:
			writeThroughNumbers(x, seen)
		case []*jsonschema.Schema:
			for _, k := range x {
				writeThroughNumbers(k, seen)
			}
		case map[string]*jsonschema.Schema:
			for _, k := range x {
				writeThroughNumbers(k, seen)
			}
		}
	}
}

package props

// Schema-position classes of keywords (the harness's own table, written from the specifications).
var (
	kwSchema      = []string{"additionalProperties", "propertyNames", "unevaluatedProperties", "contains", "unevaluatedItems", "not", "if", "then", "else", "contentSchema", "additionalItems"}
	kwSchemaArray = []string{"prefixItems", "allOf", "anyOf", "oneOf"}
	kwSchemaMap   = []string{"properties", "patternProperties", "dependentSchemas", "$defs", "definitions"}
	// "items" is a schema or an array of schemas; "dependencies" maps to a schema or a string array.
)

func isSchema(v any) bool {
	switch v.(type) {
	case bool, map[string]any:
		return true
	}
	return false
}

// mapSchemas rebuilds a schema document bottom-up: f receives each schema node (children already mapped)
// together with its JSON-pointer path and returns its replacement. Non-schema positions are copied verbatim.
func mapSchemas(node any, path []string, f func(node any, path []string) any) any {
	m, ok := node.(map[string]any)
	if !ok {
		return f(node, path)
	}
	out := make(map[string]any, len(m))
	for k, v := range m {
		out[k] = v
	}
	sub := func(k string, v any, extra ...string) any {
		p := append(append(append([]string{}, path...), k), extra...)
		return mapSchemas(v, p, f)
	}
	for _, k := range kwSchema {
		if v, ok := m[k]; ok && isSchema(v) {
			out[k] = sub(k, v)
		}
	}
	for _, k := range kwSchemaArray {
		if a, ok := m[k].([]any); ok {
			na := make([]any, len(a))
			for i, e := range a {
				if isSchema(e) {
					na[i] = sub(k, e, itoa(i))
				} else {
					na[i] = e
				}
			}
			out[k] = na
		}
	}
	for _, k := range kwSchemaMap {
		if mm, ok := m[k].(map[string]any); ok {
			nm := make(map[string]any, len(mm))
			for name, e := range mm {
				if isSchema(e) {
					nm[name] = sub(k, e, name)
				} else {
					nm[name] = e
				}
			}
			out[k] = nm
		}
	}
	switch it := m["items"].(type) {
	case []any:
		na := make([]any, len(it))
		for i, e := range it {
			if isSchema(e) {
				na[i] = sub("items", e, itoa(i))
			} else {
				na[i] = e
			}
		}
		out["items"] = na
	case bool, map[string]any:
		out["items"] = sub("items", it)
	}
	if dm, ok := m["dependencies"].(map[string]any); ok {
		nm := make(map[string]any, len(dm))
		for name, e := range dm {
			if isSchema(e) {
				nm[name] = sub("dependencies", e, name)
			} else {
				nm[name] = e
			}
		}
		out["dependencies"] = nm
	}
	return f(out, path)
}

func itoa(i int) string {
	if i == 0 {
		return "0"
	}
	var b []byte
	for i > 0 {
		b = append([]byte{byte('0' + i%10)}, b...)
		i /= 10
	}
	return string(b)
}

// schemaNodes lists the paths of all schema nodes of a document (preorder is not guaranteed; sorted by caller if needed).
func schemaNodes(doc any) (paths [][]string) {
	mapSchemas(doc, nil, func(n any, p []string) any {
		paths = append(paths, append([]string{}, p...))
		return n
	})
	return
}

package props

import (
	"encoding/json"
	"fmt"
	"math"
	"math/big"
	"math/rand/v2"
	"reflect"
	"strings"

	"github.com/google/jsonschema-go/jsonschema"

	"verif/internal/canon"
	"verif/internal/fw"
	"verif/internal/gen"
)

// C11: Equal is JSON value equality.
type c11 struct{}

func init() { register(c11{}) }

func (c11) ID() string { return "C11" }
func (c11) Cases(t fw.Tier) int {
	return tierN(t, 20000, 600000)
}
func (c11) Rule() string {
	return "each case builds a group of 8 related JSON values (a seed value, equal-by-construction copies, near misses that differ at one leaf: " +
		"last-bit/+-1 numbers incl. beyond 2^53, number vs numeric string, NFC vs NFD strings, one key/element dropped or added, null/false/0/\"\"/[]/{} swaps), " +
		"renders each in 2 random exact Go representations (every int/uint/float kind that holds the number exactly, json.Number spellings, named types, typed slices/arrays/maps, named key types, pointers) " +
		"and checks Equal(x,y) against equality of independently computed canonical forms for all ordered pairs, plus reflexivity/symmetry. " +
		"A pair is non-trivial when the two sides use different Go kinds at some node; distinct by (kind set of x, kind set of y, expected verdict)."
}
func (c11) Assumptions() []string {
	return []string{"canonical form computed by the harness's own reflection walk (internal/canon), numbers as exact rationals",
		"nil slices, nil maps, structs, NaN/Inf, []uint8 are outside the property's domain and never generated",
		"json.Number texts are valid JSON numbers within big.Rat range"}
}

type reprVal struct {
	val   any
	canon string
	trace gen.ReprTrace
	model any
}

// nearMiss returns a value that differs from v in exactly one place (or is a type confusion of it).
func nearMiss(r *rand.Rand, v any, depth int) any {
	switch x := v.(type) {
	case nil:
		return gen.Pick(r, []any{false, json.Number("0"), "", []any{}, map[string]any{}, "null"})
	case bool:
		return gen.Pick(r, []any{!x, nil, json.Number("1"), json.Number("0"), fmt.Sprint(x)})
	case json.Number:
		if rt, ok := new(big.Rat).SetString(string(x)); ok && r.IntN(4) == 0 {
			// relatives by the classic artefacts: the other sign (two's complement: -2^63 vs 2^63), a wrap-around by 2^64 / 2^32,
			// and - for a value no float64 holds exactly - the float64 NEAREST to it, spelled exactly (0.1 vs
			// 0.1000000000000000055511151231257827...)
			switch r.IntN(4) {
			case 0:
				return ratNumber(new(big.Rat).Neg(rt))
			case 1:
				return ratNumber(new(big.Rat).Add(rt, new(big.Rat).SetInt(new(big.Int).Lsh(big.NewInt(1), 64))))
			case 2:
				return ratNumber(new(big.Rat).Sub(rt, new(big.Rat).SetInt(new(big.Int).Lsh(big.NewInt(1), 32))))
			default:
				if f, exact := rt.Float64(); !exact && !math.IsInf(f, 0) {
					return ratNumber(new(big.Rat).SetFloat64(f))
				}
			}
		}
		switch r.IntN(5) {
		case 0:
			return string(x) // number vs numeric string
		case 1:
			return nextNumber(string(x), 1)
		case 2:
			return nextNumber(string(x), -1)
		case 3:
			return []any{x}
		default:
			return json.Number(gen.Pick(r, gen.Numbers))
		}
	case string:
		switch r.IntN(5) {
		case 0:
			if x == "\u00e9" {
				return "e\u0301"
			}
			return x + "\u0301"
		case 1:
			return x + " "
		case 2:
			if _, ok := newRat(x); ok {
				return json.Number(x)
			}
			return nil
		case 3:
			return []any{x}
		default:
			return gen.Pick(r, gen.Strings)
		}
	case []any:
		c := gen.Clone(x).([]any)
		switch {
		case len(c) == 0:
			return gen.Pick(r, []any{nil, map[string]any{}, []any{nil}, "", []any{[]any{}}, []any{[]any{}, []any{}}})
		case allEmpty(c) && r.IntN(2) == 0:
			// change the nesting depth of empty lists: [[]] vs [[[]]] vs [[],[]]
			return gen.Pick(r, []any{[]any{[]any{[]any{}}}, []any{[]any{}, []any{}}, []any{[]any{}}, []any{}})
		case r.IntN(4) == 0:
			return c[:len(c)-1]
		case r.IntN(4) == 0:
			return append(c, nil)
		case r.IntN(4) == 0 && len(c) > 1:
			i, j := r.IntN(len(c)), r.IntN(len(c))
			c[i], c[j] = c[j], c[i]
			return c
		default:
			i := r.IntN(len(c))
			c[i] = nearMiss(r, c[i], depth+1)
			return c
		}
	case map[string]any:
		c := gen.Clone(x).(map[string]any)
		keys := sortedKeys(c)
		switch {
		case len(c) == 0:
			return gen.Pick(r, []any{nil, []any{}, map[string]any{"": nil}})
		case r.IntN(4) == 0:
			delete(c, keys[r.IntN(len(keys))])
			return c
		case r.IntN(4) == 0:
			c["zz"] = nil
			return c
		case r.IntN(4) == 0:
			k := keys[r.IntN(len(keys))]
			val := c[k]
			delete(c, k)
			if k == "\u00e9" {
				c["e\u0301"] = val
			} else {
				c[k+"\u0301"] = val
			}
			return c
		default:
			k := keys[r.IntN(len(keys))]
			c[k] = nearMiss(r, c[k], depth+1)
			return c
		}
	}
	return v
}

func (c11) Run(c *fw.Case) {
	r := c.R
	base := gen.Value(r, gen.ValueOpts{MaxDepth: 3, BigInts: true, MaxLen: 3}, 0)
	models := []any{base, base, base}
	for len(models) < 8 {
		if r.IntN(3) == 0 {
			models = append(models, nearMiss(r, models[r.IntN(len(models))], 0))
		} else {
			models = append(models, nearMiss(r, base, 0))
		}
	}
	switch r.IntN(14) {
	case 0:
		// size stress: the same eight values at the bottom of a tower of 99..1001 containers
		// (depth guards, visited sets and fallbacks of an implementation live at such depths)
		depth := gen.Pick(r, []int{63, 64, 65, 99, 100, 101, 102, 127, 128, 129, 255, 256, 257, 999, 1000, 1001})
		shape := r.IntN(3) // arrays, objects, alternating
		for i, m := range models {
			for d := 0; d < depth; d++ {
				if shape == 0 || (shape == 2 && d%2 == 0) {
					m = []any{m}
				} else {
					m = map[string]any{"k": m}
				}
			}
			models[i] = m
		}
	case 1:
		// size stress: long arrays / wide objects that differ (or not) in one late member
		long := gen.LongValue(r)
		models = []any{long, long, long}
		for len(models) < 8 {
			c := gen.Clone(long)
			switch x := c.(type) {
			case []any:
				i := gen.Pick(r, []int{len(x) - 1, len(x) - 1, 63, 64, 0, len(x) / 2})
				if i < len(x) {
					x[i] = nearMiss(r, x[i], 1)
				}
			case map[string]any:
				ks := sortedKeys(x)
				k := ks[len(ks)-1-r.IntN(min(3, len(ks)))]
				x[k] = nearMiss(r, x[k], 1)
			}
			models = append(models, c)
		}
	}
	var vals []*reprVal
	for _, m := range models {
		for k := 0; k < 2; k++ {
			rv := &reprVal{model: m}
			rv.val = gen.Repr(r, m, gen.ReprOpts{}, &rv.trace)
			cs, err := canon.Of(rv.val)
			if err != nil {
				c.Inconclusive("canon refused a generated value: " + err.Error())
				return
			}
			rv.canon = cs
			// generator self-check: the representation must denote the model value
			if mc := canon.Must(m); mc != cs {
				panic(fmt.Sprintf("repr generator changed the value: model %s repr %s (%#v)", mc, cs, rv.val))
			}
			vals = append(vals, rv)
		}
	}
	if c.Idx%10 == 6 {
		// slices of ONE Go type holding the same numbers in different spellings ([]json.Number{"1.0"} vs []json.Number{"1"}):
		// a same-type fast path must still compare numbers, not text
		n := 1 + r.IntN(4)
		nums := make([]any, n)
		for i := range nums {
			nums[i] = json.Number(gen.Pick(r, gen.Numbers))
		}
		vals = vals[:0]
		for k := 0; k < 6; k++ {
			m := gen.Clone(nums).([]any)
			switch {
			case k >= 4:
				m = nearMiss(r, m, 1).([]any)
			case k >= 1:
				m = gen.Respell(r, m).([]any)
			}
			typed := make([]json.Number, 0, len(m))
			allNum := true
			for _, e := range m {
				if jn, ok := e.(json.Number); ok {
					typed = append(typed, jn)
				} else {
					allNum = false
				}
			}
			var v any = m
			kind := "[]any(json.Number)"
			if allNum && r.IntN(4) > 0 {
				v, kind = typed, "[]json.Number"
				if r.IntN(3) == 0 {
					v, kind = map[string]any{"k": typed}, "map{[]json.Number}"
				}
			}
			rv := &reprVal{val: v, model: m}
			cs, err := canon.Of(v)
			if err != nil {
				continue
			}
			rv.canon = cs
			rv.trace.Kinds = map[string]bool{kind: true}
			vals = append(vals, rv)
		}
	}
	if c.Idx%10 == 3 {
		// aliasing inside one value: rows cut as prefixes of ONE backing array (s[:1], s[:2], ...), on both sides of the comparison;
		// the two sides differ only beyond the shortest prefix, or not at all. (A memo or identity shortcut keyed by the data pointer
		// sees the same key for s[:1] and s[:2].)
		n := 2 + r.IntN(3)
		s := make([]any, n)
		for i := range s {
			s[i] = gen.Repr(r, gen.Value(r, gen.ValueOpts{MaxDepth: 1, MaxLen: 2}, 1), gen.ReprOpts{}, nil)
		}
		mk := func(backing []any) *reprVal {
			rows := make([]any, 0, len(backing))
			for k := 1; k <= len(backing); k++ {
				rows = append(rows, backing[:k])
			}
			if r.IntN(2) == 0 {
				rows[0], rows[len(rows)-1] = rows[len(rows)-1], rows[0]
			}
			rv := &reprVal{val: rows}
			rv.canon = canon.Must(rows)
			rv.trace.Kinds = map[string]bool{"aliased-prefix-rows": true}
			return rv
		}
		vals = vals[:0]
		for k := 0; k < 4; k++ {
			u := append([]any{}, s...)
			if k > 0 {
				i := 1 + r.IntN(n-1) // never the first element: the shortest prefixes stay equal
				u[i] = gen.Repr(r, nearMiss(r, gen.Value(r, gen.ValueOpts{MaxDepth: 1, MaxLen: 2}, 1), 1), gen.ReprOpts{}, nil)
			}
			x, y := mk(u), mk(append([]any{}, u...))
			if r.IntN(2) == 0 {
				x, y = y, x
			}
			vals = append(vals, x, y)
		}
	}
	for i, x := range vals {
		for j, y := range vals {
			want := x.canon == y.canon
			var got bool
			input := map[string]any{"x": describe(x.val), "y": describe(y.val), "x_canon": x.canon, "y_canon": y.canon}
			if !c.CallChecked("Equal", input, func() { got = jsonschema.Equal(x.val, y.val) }) {
				continue
			}
			c.Eval(1)
			kx, ky := x.trace.Key(), y.trace.Key()
			c.Count(fmt.Sprintf("cell:%s|%s|%v", topKind(x.val), topKind(y.val), want), 1)
			if kx != ky {
				c.Nontrivial(fmt.Sprintf("%s|%s|%v", kx, ky, want))
			}
			if got != want {
				what := "Equal(x,y)=" + fmt.Sprint(got) + " but the canonical forms say " + fmt.Sprint(want)
				if i == j {
					what = "Equal is not reflexive"
				}
				input["equal"] = got
				input["expected"] = want
				c.Violation(what, input)
			}
		}
	}
	if c.Idx%400 == 0 {
		c.Sample(map[string]any{"case": c.Idx, "x": describe(vals[0].val), "y": describe(vals[3].val), "canon_equal": vals[0].canon == vals[3].canon})
	}
}

func topKind(v any) string {
	if v == nil {
		return "nil"
	}
	t := reflect.TypeOf(v)
	if t.Name() != "" && t.PkgPath() != "" {
		return t.Name()
	}
	return t.Kind().String()
}

// describe renders a Go value with its types (for witnesses).
func describe(v any) string { return gen.Describe(v) }

func allEmpty(l []any) bool {
	for _, e := range l {
		if x, ok := e.([]any); !ok || len(x) != 0 {
			return false
		}
	}
	return len(l) > 0
}

// ratNumber spells an exact rational with a terminating decimal expansion as a json.Number (falls back to a fraction-free
// approximation never: returns the original spelling of the numerator when the expansion does not terminate within 1100 digits).
func ratNumber(v *big.Rat) json.Number {
	if v.IsInt() {
		return json.Number(v.Num().String())
	}
	s := v.FloatString(1100)
	s = strings.TrimRight(s, "0")
	s = strings.TrimSuffix(s, ".")
	return json.Number(s)
}

package props

import (
	"encoding/json"
	"fmt"
	"reflect"
	"strings"

	"github.com/google/jsonschema-go/jsonschema"

	"verif/internal/fw"
	"verif/internal/gen"
)

// C17: every subschema is addressable by its JSON Pointer.
type c17 struct{}

func init() { register(c17{}) }

func (c17) ID() string { return "C17" }
func (c17) Cases(t fw.Tier) int {
	return tierN(t, 150000, 4000000)
}
func (c17) Rule() string {
	return "valid locations (75%): a path of 1-5 steps over EVERY schema-, schema-array- and schema-map-valued field of Schema (found by the harness's own reflection, incl. the items and dependencies unions and the draft-07 fields) x key strings " +
		"{'', '/', '~', '~0', '~1', '~01', '%', '%25', ' ', 'a b', 'é', '日本', '0', '01', '-', '#', '?', '\"', '\\\\', 'a/b', '~~', '%2F', '+1', '-0'} x indices 0-11; the document is {$ref:'#'+enc(L), $defs:{T:tree}} where the node at L is {const:'HIT'}, " +
		"every sibling in the same array/map/other keyword is {const:'S<n>'} and ancestors are structural containers whose verdict vector differs from the leaf's; the pointer is escaped (~0,~1) and percent-encoded by the harness's own encoder. " +
		"Expected by construction: HIT valid, every other marker invalid. Invalid pointers (25%): index = len, '-', '01', '+1', '-0', '1.0', missing key, pointer ending on a map / array / scalar keyword (/properties, /allOf, /type, /required/0, /enum/0, /const), " +
		"a dependencies entry that is a string array, '~2', trailing '~', bad percent escape, a step into a boolean schema, indices at and beyond 2^63 / 2^64 (which must not wrap to a valid element): Resolve must fail. " +
		"Non-trivial: a key needs escaping, or a union/draft-07 keyword is on the path, or depth >= 3; distinct by (keyword sequence, escape classes)."
}
func (c17) Assumptions() []string {
	return []string{"oracle by construction (the harness builds the document, so it knows the location); no model involved",
		"$defs and definitions never share an object; array-form items, dependencies, additionalItems, definitions only under a draft-07 root",
		"pinned known finding (not generated): the pointer .../not into the boolean schema false resolves, because false is held as {\"not\": {}} (KF-C17-1); every other route into false is generated and must fail"}
}

var ptrKeys = []string{"", "/", "~", "~0", "~1", "~01", "%", "%25", " ", "a b", "é", "日本", "0", "01", "-", "#", "?", "\"", "\\", "a/b", "~~", "%2F", "+1", "-0", "a", "b", "k", "a+b", "c++", "+", "a&b", "x=y;z", "$ref", "(", "a,b", "@", "!", "*", "\ufffd", "a\ufffdb", "\U0001F600", "\ufeff", "\u00a0"}
var ptrPatternKeys = []string{"", "/", "~", "~0", "~1", "~01", "%", "%25", " ", "a b", "é", "日本", "0", "01", "-", "#", "\"", "a/b", "~~", "%2F", "-0", "^a", "b$", "a+b", "a&b", "@", "\ufffd", "\U0001F600"}

type stepKind int

const (
	stepSingle stepKind = iota
	stepArray
	stepMap
)

type ptrField struct {
	goName  string
	keyword string
	kind    stepKind
	d7      bool // only meaningful under a draft-07 root
	pattern bool // keys must be regular expressions
}

var ptrFields []ptrField

func init() {
	t := reflect.TypeOf(jsonschema.Schema{})
	single, slice, maps := gen.SubschemaFields()
	kindOf := map[string]stepKind{}
	for _, n := range single {
		kindOf[n] = stepSingle
	}
	for _, n := range slice {
		kindOf[n] = stepArray
	}
	for _, n := range maps {
		kindOf[n] = stepMap
	}
	for i := 0; i < t.NumField(); i++ {
		f := t.Field(i)
		k, ok := kindOf[f.Name]
		if !ok {
			continue
		}
		kw := keywordOf(f)
		if kw == "" {
			continue
		}
		pf := ptrField{goName: f.Name, keyword: kw, kind: k}
		switch f.Name {
		case "ItemsArray", "DependencySchemas", "AdditionalItems", "Definitions":
			pf.d7 = true
		case "PatternProperties":
			pf.pattern = true
		}
		ptrFields = append(ptrFields, pf)
	}
}

func fragEncode(ptr string) string {
	var sb strings.Builder
	for _, b := range []byte(ptr) {
		switch {
		case b >= 'a' && b <= 'z' || b >= 'A' && b <= 'Z' || b >= '0' && b <= '9' || strings.IndexByte("-._~!$&'()*+,;=:@/?", b) >= 0:
			sb.WriteByte(b)
		default:
			fmt.Fprintf(&sb, "%%%02X", b)
		}
	}
	return sb.String()
}

type ptrDoc struct {
	root     map[string]any
	pointer  string // unencoded RFC 6901 pointer from the document root
	siblings int
	kwSeq    []string
	escapes  map[string]bool
	d7       bool
	// for invalid-pointer derivation
	lastArrayLen int
	lastKind     stepKind
	parentPtr    string // pointer of the container holding the last step's keyword
	lastKeyword  string
}

func buildPtrDoc(c *fw.Case, depth int) *ptrDoc {
	r := c.R
	d := &ptrDoc{escapes: map[string]bool{}}
	nsib := 0
	sib := func() any {
		nsib++
		return map[string]any{"const": fmt.Sprintf("S%d", nsib)}
	}
	tree := map[string]any{}
	cur := tree
	ptr := "/$defs/T"
	for step := 0; step < depth; step++ {
		f := gen.Pick(r, ptrFields)
		if f.d7 {
			d.d7 = true
		}
		// $defs and definitions never in one object; Items xor ItemsArray; keep one keyword per container plus decoys
		var child any
		last := step == depth-1
		if last {
			child = map[string]any{"const": "HIT"}
		} else {
			child = map[string]any{}
		}
		d.parentPtr, d.lastKeyword, d.lastKind = ptr, f.keyword, f.kind
		d.kwSeq = append(d.kwSeq, f.keyword)
		switch f.kind {
		case stepSingle:
			cur[f.keyword] = child
			ptr += "/" + ptrEscape(f.keyword)
		case stepArray:
			idx := r.IntN(12)
			if r.IntN(2) == 0 {
				idx = r.IntN(3)
			}
			n := idx + 1 + r.IntN(3)
			arr := make([]any, n)
			for i := range arr {
				arr[i] = sib()
			}
			arr[idx] = child
			cur[f.keyword] = arr
			d.lastArrayLen = n
			ptr += "/" + ptrEscape(f.keyword) + "/" + fmt.Sprint(idx)
		case stepMap:
			keys := ptrKeys
			if f.pattern {
				keys = ptrPatternKeys
			}
			key := gen.Pick(r, keys)
			m := map[string]any{}
			for k := 1 + r.IntN(3); k > 0; k-- {
				m[gen.Pick(r, keys)] = sib()
			}
			// near-miss decoy keys: what a wrong unescape / missing percent-decoding would select
			for _, dk := range []string{strings.ReplaceAll(key, "~1", "/"), strings.ReplaceAll(key, "~0", "~"), ptrEscape(key), fragEncode(key), strings.ReplaceAll(strings.ReplaceAll(key, "~1", "/"), "~0", "~")} {
				if dk != key && !(f.pattern && !compiles(dk)) {
					m[dk] = sib()
				}
			}
			m[key] = child
			cur[f.keyword] = m
			if strings.ContainsAny(key, "~/") {
				d.escapes["tilde-slash"] = true
			}
			if fragEncode(key) != key {
				d.escapes["percent"] = true
			}
			if key == "" || key == "-" || key == "0" || key == "01" || key == "+1" || key == "-0" {
				d.escapes["index-like-or-empty"] = true
			}
			ptr += "/" + ptrEscape(f.keyword) + "/" + ptrEscape(key)
		}
		// decoy keywords beside the path in the same container
		for k := r.IntN(3); k > 0; k-- {
			df := gen.Pick(r, ptrFields)
			if _, used := cur[df.keyword]; used || df.keyword == "$defs" && hasKeyStr(cur, "definitions") || df.keyword == "definitions" && hasKeyStr(cur, "$defs") {
				continue
			}
			if df.d7 {
				d.d7 = true
			}
			switch df.kind {
			case stepSingle:
				cur[df.keyword] = sib()
			case stepArray:
				cur[df.keyword] = []any{sib(), sib()}
			case stepMap:
				k1 := "a"
				if df.pattern {
					k1 = "^a"
				}
				cur[df.keyword] = map[string]any{k1: sib()}
			}
		}
		if !last {
			cur = child.(map[string]any)
		}
	}
	d.pointer = ptr
	d.siblings = nsib
	d.root = map[string]any{"$defs": map[string]any{"T": tree}}
	if d.d7 {
		d.root["$schema"] = gen.Schema7URI
	}
	return d
}

func hasKeyStr(m map[string]any, k string) bool { _, ok := m[k]; return ok }

func compiles(re string) bool {
	var s jsonschema.Schema
	s.PatternProperties = map[string]*jsonschema.Schema{re: {}}
	_, err := s.Resolve(nil)
	return err == nil
}

func (p c17) Run(c *fw.Case) {
	if c.Idx%6 == 5 {
		failedCalls(c) // call history: failed calls before the case must leave nothing behind
	}
	r := c.R
	if c.Idx%40 == 13 {
		// the addressed subschema is the EMPTY schema below a holder that consists of nothing but `not` ({"not": {}} /
		// {"not": true} - after decoding, the same Go value as the boolean schema false): the location exists, the reference
		// resolves to the empty schema, every instance is valid
		holder := map[string]any{"not": gen.Pick(r, []any{map[string]any{}, true})}
		type shape struct {
			doc map[string]any
			ptr string
		}
		sh := gen.Pick(r, []shape{
			{map[string]any{"$defs": map[string]any{"never": holder}}, "/$defs/never/not"},
			{map[string]any{"properties": map[string]any{"p": holder}}, "/properties/p/not"},
			{map[string]any{"$defs": map[string]any{"d": map[string]any{"allOf": []any{holder, true}}}}, "/$defs/d/allOf/0/not"},
			{map[string]any{"$defs": map[string]any{"d": map[string]any{"items": holder, "title": "t"}}}, "/$defs/d/items/not"},
		})
		doc := gen.Clone(sh.doc).(map[string]any)
		wrapped := r.IntN(2) == 0
		if wrapped {
			doc["additionalProperties"] = map[string]any{"$ref": "#" + sh.ptr}
		} else {
			delete(doc, "properties") // (the reference replaces whatever else would constrain the instance itself)
			if _, has := doc["$defs"]; !has {
				doc["$defs"] = map[string]any{"p": holder}
				sh.ptr = "/$defs/p/not"
			}
			doc["$ref"] = "#" + sh.ptr
		}
		text := gen.Text(doc)
		rs, err, ok := compileDoc(c, text, nil)
		if !ok {
			return
		}
		c.Eval(1)
		if err != nil {
			c.Violation("a $ref to the JSON Pointer of an existing subschema does not resolve: "+err.Error(), map[string]any{"schema": json.RawMessage(text), "pointer": sh.ptr})
			return
		}
		for _, inst := range []any{"HIT", 1.0, nil, map[string]any{"zz": "v"}, []any{1.0}} {
			valid, ok := validate(c, rs, text, inst, gen.Describe(inst))
			if !ok {
				return
			}
			c.Eval(1)
			if m, isObj := inst.(map[string]any); !valid && !(wrapped && !isObj && m == nil && false) {
				c.Violation("the pointer to an empty subschema selected something that rejects an instance", map[string]any{"schema": json.RawMessage(text), "pointer": sh.ptr, "instance": gen.Describe(inst)})
				return
			}
		}
		c.Nontrivial("empty-target-below-not|" + sh.ptr)
		return
	}
	depth := 1 + r.IntN(5)
	d := buildPtrDoc(c, depth)
	if c.Idx%4 == 3 {
		p.invalid(c, d)
		return
	}
	d.root["$ref"] = "#" + fragEncode(d.pointer)
	if c.Idx%7 == 3 {
		// a second reference keyword in the same object, lexically resolved and permissive: the verdicts still hinge on $ref alone
		d.root["$defs"].(map[string]any)["zz-any"] = map[string]any{"type": "string"}
		d.root["$dynamicRef"] = "#/$defs/zz-any"
	}
	if c.Idx%6 == 4 {
		// the document has an identity of its own, spelled in a way that needs normalising (dot segments), or carrying an empty
		// query or an empty fragment: the pointer reference is still a reference into this very document
		d.root["$id"] = gen.Pick(r, []string{"http://h/a/../b/./t.json", "http://h/x/./t.json", "http://h/t.json?", "http://h/t.json#", "http://h/a/b/../../t.json", "HTTP://h/t.json", "http://h/t.json?q=1"})
	}
	text := gen.Text(d.root)
	var opts *jsonschema.ResolveOptions
	if c.Idx%5 == 1 {
		// the same tree served by a Loader: the pointer fragment follows a document URI, the document is loaded while the
		// reference is being resolved, and the loaded document holds pointer references of its own
		delete(d.root, "$ref")
		delete(d.root, "$dynamicRef")
		delete(d.root, "$id")
		d.root["$defs"].(map[string]any)["zz-other"] = map[string]any{"$ref": "#/$defs/T"}
		if r.IntN(2) == 0 {
			d.root["allOf"] = []any{map[string]any{"$ref": "#/$defs/zz-other"}}
		}
		ld := &mapLoader{docs: map[string]string{"http://h/t.json": gen.Text(d.root)}}
		opts = &jsonschema.ResolveOptions{BaseURI: "http://h/root.json", Loader: ld.load}
		ref := gen.Pick(r, []string{"http://h/t.json", "t.json", "/t.json", "./t.json"}) + "#" + fragEncode(d.pointer)
		var rootDoc any = map[string]any{"$ref": ref}
		if r.IntN(3) == 0 {
			rootDoc = map[string]any{"allOf": []any{map[string]any{"$ref": ref}}, "$defs": map[string]any{"first": map[string]any{"$ref": "t.json#/$defs/zz-other"}}}
		}
		text = gen.Text(rootDoc)
		c.Count("served_by_loader", 1)
	}
	rs, err, ok := compileDoc(c, text, opts)
	if !ok {
		return
	}
	if err != nil {
		c.Eval(1)
		c.Violation("a $ref to the JSON Pointer of an existing subschema does not resolve: "+err.Error(), map[string]any{"schema": json.RawMessage(text), "pointer": d.pointer})
		return
	}
	markers := []string{"HIT", "Z"}
	for i := 1; i <= d.siblings; i++ {
		markers = append(markers, fmt.Sprintf("S%d", i))
	}
	for _, mk := range markers {
		valid, ok := validate(c, rs, text, mk, mk)
		if !ok {
			return
		}
		c.Eval(1)
		if valid != (mk == "HIT") {
			c.Violation(fmt.Sprintf("the pointer selected another schema: marker %q valid=%v (only HIT may pass)", mk, valid), map[string]any{"schema": json.RawMessage(text), "pointer": d.pointer, "marker": mk})
			return
		}
	}
	for _, k := range d.kwSeq {
		c.Count("kw:"+k, 1)
	}
	union := false
	for _, k := range d.kwSeq {
		if k == "items" || k == "dependencies" || k == "additionalItems" || k == "definitions" {
			union = true
		}
	}
	if len(d.escapes) > 0 || union || depth >= 3 {
		c.Nontrivial(strings.Join(d.kwSeq, ">") + "|" + strings.Join(sortedKeys(d.escapes), ","))
	}
	if c.Idx%6000 == 0 {
		c.Sample(map[string]any{"schema": json.RawMessage(text), "pointer": d.pointer})
	}
}

// invalid derives a pointer that names no subschema location from the valid document.
func (c17) invalid(c *fw.Case, d *ptrDoc) {
	r := c.R
	var bad, class string
	base := d.parentPtr + "/" + ptrEscape(d.lastKeyword)
	enc := true
	switch k := r.IntN(17); {
	case k >= 15 && strings.HasPrefix(d.pointer, "/$defs/") && !hasKeyStr(d.root, "definitions"):
		// the location exists under "$defs"; "definitions" is another keyword, which this document does not have
		bad, class = "/definitions/"+strings.TrimPrefix(d.pointer, "/$defs/"), "other-definitions-keyword"
	case k == 0 && d.lastKind == stepArray:
		bad, class = base+"/"+fmt.Sprint(d.lastArrayLen), "index=len"
	case k == 1 && d.lastKind == stepArray:
		bad, class = base+"/-", "dash"
	case k == 2 && d.lastKind == stepArray:
		bad, class = base+"/0"+fmt.Sprint(r.IntN(2)), "leading-zero"
	case k == 3 && d.lastKind == stepArray:
		bad, class = base+"/"+gen.Pick(r, []string{"+1", "-0", "+0", "1.0", "1e0", " 1", "0x1", "１"}), "non-digit-index"
	case k == 13 && d.lastKind == stepArray:
		// indices around 2^63 / 2^64: must be errors, never wrap to a valid element
		huge := []string{"9223372036854775807", "9223372036854775808", "18446744073709551615", "18446744073709551616", "18446744073709551617", "36893488147419103232", "36893488147419103233", "340282366920938463463374607431768211456", "4294967296", "99999999999999999999999999"}
		bad, class = base+"/"+gen.Pick(r, huge), "huge-index"
	case k == 4 && d.lastKind == stepMap:
		bad, class = base+"/zz-missing-key", "missing-key"
	case k == 5 && d.lastKind != stepSingle:
		bad, class = base, "ends-on-container"
	case k == 6:
		bad, class = d.pointer+"/"+gen.Pick(r, []string{"const", "type", "enum/0", "required/0", "title", "const/x"}), "scalar-keyword"
	case k == 7:
		bad, class = d.pointer+"/"+gen.Pick(r, []string{"nokeyword", "Properties", "ALLOF", "item", ""}), "unknown-keyword"
	case k == 8:
		bad, class = d.pointer+"~"+gen.Pick(r, []string{"2", "", "a", "~"}), "bad-tilde"
		// the tilde sequence is appended to the last segment
	case k == 9:
		bad, class, enc = fragEncode(d.pointer)+gen.Pick(r, []string{"%zz", "%", "%2"}), "bad-percent", false
	case k == 10:
		bad, class = d.pointer[1:], "no-leading-slash"
	case k == 11:
		// a dependencies entry that is a string array
		d.root["$defs"].(map[string]any)["T"].(map[string]any)["dependencies"] = map[string]any{"strs": []any{"x"}}
		d.root["$schema"] = gen.Schema7URI
		bad, class = "/$defs/T/dependencies/strs", "dependencies-string-array"
	case k == 12 || k == 14 && d.lastKind != stepArray:
		d.root["$defs"].(map[string]any)["B"] = true
		bad, class = "/$defs/B/"+gen.Pick(r, []string{"not", "properties", "allOf/0"}), "into-boolean-schema"
		if r.IntN(2) == 0 {
			// ... and into false, except through "not" itself (pinned known finding KF-C17-1: false is held as {"not": {}})
			d.root["$defs"].(map[string]any)["B"] = false
			bad, class = "/$defs/B/"+gen.Pick(r, []string{"not/not", "properties", "allOf/0", "not/properties", "items", "else"}), "into-false-schema"
		}
	default:
		bad, class = d.pointer+"/not", "past-the-leaf" // the leaf has no "not"
	}
	if bad == "" {
		bad, class = d.pointer+"/not", "past-the-leaf"
	}
	ref := "#" + bad
	if enc {
		ref = "#" + fragEncode(bad)
	}
	d.root["$ref"] = ref
	text := gen.Text(d.root)
	_, err, ok := compileDoc(c, text, nil)
	if !ok {
		return
	}
	c.Eval(1)
	c.Count("invalid:"+class, 1)
	if err == nil {
		c.Violation(fmt.Sprintf("Resolve accepted the pointer %q (%s), which names no subschema location", bad, class), map[string]any{"schema": json.RawMessage(text), "pointer": bad, "class": class})
		return
	}
	c.Nontrivial("invalid|" + class + "|" + d.lastKeyword)
}

// RunKnown re-executes the pinned known finding of C17.
func (c17) RunKnown(id string) (bool, string, error) {
	if id != "KF-C17-1" {
		return false, "", fmt.Errorf("unknown known-finding id %s", id)
	}
	// the boolean schema false has no members, so "#/$defs/f/not" names no location; the package represents false as
	// {"not": {}} and the pointer walk finds that internal "not"
	var s jsonschema.Schema
	if err := json.Unmarshal([]byte(`{"$ref":"#/$defs/f/not","$defs":{"f":false}}`), &s); err != nil {
		return false, "", err
	}
	if _, err := s.Resolve(nil); err == nil {
		return true, `Resolve accepts {"$ref":"#/$defs/f/not","$defs":{"f":false}}`, nil
	}
	return false, "", nil
}

package props

import (
	"encoding/json"
	"fmt"
	"math/rand/v2"
	"strings"

	"github.com/google/jsonschema-go/jsonschema"

	"verif/internal/canon"
	"verif/internal/fw"
	"verif/internal/gen"
	"verif/internal/refmodel"
)

// C15: ApplyDefaults only adds declared defaults; ValidateDefaults checks them.
type c15 struct{}

func init() { register(c15{}) }

func (c15) ID() string { return "C15" }
func (c15) Cases(t fw.Tier) int {
	return tierN(t, 60000, 1500000)
}
func (c15) Rule() string {
	return "each case generates a schema with defaults of every JSON type at depth 0-3 of properties (with / without required at each level, defaults on object and non-object subschemas, object defaults that themselves lack nested defaults, " +
		"defaults that are invalid for their subschema, and defaults elsewhere: items, allOf, $defs) and 10 instances (objects with any subset of the properties present, non-objects at any position), each applied in a random Go representation " +
		"(map[string]any, typed maps such as map[string]int / map[string]map[string]any, named key types, pointers). Laws checked on the observed before/after pair by a recursive JUSTIFICATION CHECKER: " +
		"(L0) two documents completed with one Resolved do not alias (the first result is scribbled over before the second application); (L1) applying again changes nothing; (L2) every value present before is present and equal after (objects may only gain keys); (L3) no key is added that its schema node lists in required; " +
		"(L4) every added key is declared in properties and its value is the declared default, completed only by recursively justified additions, or - without a default - a non-empty object whose keys are all justified. " +
		"(L5) Resolve with ValidateDefaults succeeds exactly when the reference model accepts every default of the root tree against the subschema that declares it. " +
		"Non-trivial: a key was inserted at depth >= 1 or a required/default conflict is present; distinct by (max insertion depth, required pattern, default types, representation kinds)."
}
func (c15) Assumptions() []string {
	return []string{"laws L1, L3, L4 are decided only when ApplyDefaults returned nil (on a documented error a partial application is legitimate; L2 is still checked)",
		"completeness (every default applied) is not demanded; schemas for L5 contain no $dynamicRef (documented as unsupported by ValidateDefaults)"}
}

type dgen struct {
	r      *rand.Rand
	names  []string
	hasBad bool
	noNull bool   // no null defaults (a typed map element cannot hold null: json.Unmarshal leaves the zero value)
	sep    string // separator mode: names[2] is names[0]+sep+names[1]
}

func (g *dgen) defaultFor(typ string, allowBad bool) any {
	r := g.r
	if allowBad && r.IntN(12) == 0 {
		g.hasBad = true
		typ = gen.Pick(r, []string{"string", "integer", "object", "array", "null", "boolean"})
	}
	if typ == "null" && g.noNull {
		typ = "boolean"
	}
	switch typ {
	case "string":
		return gen.Pick(r, []string{"", "dflt", "é"})
	case "integer":
		if r.IntN(4) == 0 {
			// just outside the range of a narrow integer kind: a typed map element of that kind cannot hold the default
			// (an error, nothing inserted), any wider holder receives exactly this number
			return json.Number(gen.Pick(r, []string{"128", "300", "-129", "255", "256", "32768", "-32769", "65536", "65535", "-32768"} /* all below 2^24: a float32 holder keeps them exactly */))
		}
		return json.Number(gen.Pick(r, []string{"0", "1", "7", "-3"}))
	case "number":
		return json.Number(gen.Pick(r, []string{"0.5", "2", "1e2"}))
	case "boolean":
		return r.IntN(2) == 0
	case "null":
		return nil
	case "array":
		return []any{json.Number("1"), "x"}
	default:
		return map[string]any{}
	}
}

func (g *dgen) node(depth int, allowBad bool) map[string]any {
	r := g.r
	s := map[string]any{}
	if r.IntN(3) > 0 {
		s["type"] = "object"
	}
	props := map[string]any{}
	n := 1 + r.IntN(3)
	for i := 0; i < n; i++ {
		name := gen.Pick(r, g.names)
		if depth < 3 && r.IntN(3) == 0 {
			child := g.node(depth+1, allowBad)
			// an object-typed property may carry an object default (possibly missing its nested defaults)
			switch r.IntN(4) {
			case 0:
				child["default"] = map[string]any{}
			case 1:
				child["default"] = map[string]any{gen.Pick(r, g.names): g.defaultFor(gen.Pick(r, []string{"string", "integer"}), false)}
			}
			props[name] = child
		} else {
			typ := gen.Pick(r, []string{"string", "integer", "number", "boolean", "null", "array", "object"})
			leaf := map[string]any{}
			if r.IntN(4) > 0 {
				leaf["type"] = typ
			}
			if r.IntN(3) > 0 {
				leaf["default"] = g.defaultFor(typ, allowBad)
			}
			if r.IntN(8) == 0 {
				leaf["minimum"] = json.Number("1")
			}
			props[name] = leaf
		}
	}
	s["properties"] = props
	if g.sep != "" && r.IntN(2) == 0 {
		// the joined name and its parts side by side, all with defaults; required lists that join to the same text
		for _, name := range g.names[:3] {
			if _, ok := props[name]; !ok {
				props[name] = map[string]any{"type": "integer", "default": g.defaultFor("integer", false)}
			}
		}
		if r.IntN(2) == 0 {
			s["required"] = []any{g.names[2]}
		} else {
			s["required"] = []any{g.names[0], g.names[1]}
		}
	} else if r.IntN(2) == 0 {
		var req []any
		for _, name := range sortedKeys(props) {
			if r.IntN(2) == 0 {
				req = append(req, name)
			}
		}
		if r.IntN(4) == 0 {
			req = append(req, "zz-other")
		}
		if req != nil {
			s["required"] = req
		}
	}
	// defaults elsewhere (only L5 looks at them)
	if r.IntN(8) == 0 {
		s["items"] = map[string]any{"type": "integer", "default": g.defaultFor("integer", allowBad)}
	}
	if r.IntN(8) == 0 {
		s["allOf"] = []any{map[string]any{"properties": map[string]any{gen.Pick(r, g.names): map[string]any{"type": "string", "default": g.defaultFor("string", allowBad)}}}}
	}
	if depth == 0 && r.IntN(6) == 0 {
		s["$defs"] = map[string]any{"d": map[string]any{"type": "boolean", "default": g.defaultFor("boolean", allowBad)}}
	}
	if depth == 0 && r.IntN(10) == 0 {
		s["default"] = map[string]any{}
	}
	return s
}

func (g *dgen) instance(s map[string]any, depth int) any {
	r := g.r
	if r.IntN(8) == 0 || depth > 3 {
		return gen.Value(r, gen.ValueOpts{MaxDepth: 1, MaxLen: 2}, 0) // a non-object where the schema expects an object
	}
	out := map[string]any{}
	props, _ := s["properties"].(map[string]any)
	for _, name := range sortedKeys(props) {
		if r.IntN(2) == 0 {
			continue
		}
		sub := props[name].(map[string]any)
		if _, nested := sub["properties"]; nested && r.IntN(4) > 0 {
			out[name] = g.instance(sub, depth+1)
		} else {
			switch r.IntN(4) {
			case 0:
				out[name] = gen.Value(r, gen.ValueOpts{MaxDepth: 1, MaxLen: 2}, 0)
			default:
				typ, _ := sub["type"].(string)
				out[name] = g.defaultFor(typ, false)
			}
		}
	}
	if r.IntN(4) == 0 {
		out["zz-extra"] = json.Number("5")
	}
	return out
}

// justify checks (before, after) against schema node n; it returns a description of the first unjustified difference.
func justify(n any, before, after any, path string, maxDepth *int, depth int) string {
	bo, bIsObj := before.(map[string]any)
	ao, aIsObj := after.(map[string]any)
	if !bIsObj || !aIsObj {
		if canon.Must(before) != canon.Must(after) {
			return fmt.Sprintf("%s: a present value changed from %s to %s", path, gen.Text(before), gen.Text(after))
		}
		return ""
	}
	nm, _ := n.(map[string]any)
	props, _ := nm["properties"].(map[string]any)
	required := map[string]bool{}
	if req, ok := nm["required"].([]any); ok {
		for _, q := range req {
			if s, ok := q.(string); ok {
				required[s] = true
			}
		}
	}
	for k := range bo {
		if _, ok := ao[k]; !ok {
			return fmt.Sprintf("%s: the present key %q disappeared", path, k)
		}
	}
	for _, k := range sortedKeys(ao) {
		av := ao[k]
		var sub any
		if props != nil {
			sub = props[k]
		}
		if bv, present := bo[k]; present {
			if p := justify(sub, bv, av, path+"/"+k, maxDepth, depth+1); p != "" {
				return p
			}
			continue
		}
		// an added key
		if depth > *maxDepth {
			*maxDepth = depth
		}
		if sub == nil {
			return fmt.Sprintf("%s: key %q was added although the schema declares no such property", path, k)
		}
		if required[k] {
			return fmt.Sprintf("%s: the required property %q was filled in", path, k)
		}
		sm, _ := sub.(map[string]any)
		if d, has := sm["default"]; has {
			if p := justify(sub, d, av, path+"/"+k, maxDepth, depth+1); p != "" {
				return fmt.Sprintf("%s: added value for %q is not its declared default plus justified additions (%s)", path, k, p)
			}
			continue
		}
		avo, ok := av.(map[string]any)
		if !ok || len(avo) == 0 {
			return fmt.Sprintf("%s: key %q was added with %s although it declares no default and the value holds no default", path, k, gen.Text(av))
		}
		if p := justify(sub, map[string]any{}, av, path+"/"+k, maxDepth, depth+1); p != "" {
			return p
		}
	}
	return ""
}

// modelForm renders a Go instance as model-form JSON (through encoding/json).
func modelForm(v any) (any, error) {
	data, err := json.Marshal(v)
	if err != nil {
		return nil, err
	}
	return gen.Parse(string(data)), nil
}

func collectDefaults(doc any) (ptrs []string, vals []any) {
	mapSchemas(doc, nil, func(n any, p []string) any {
		if m, ok := n.(map[string]any); ok {
			if d, has := m["default"]; has {
				esc := make([]string, len(p))
				for i, s := range p {
					esc[i] = ptrEscape(s)
				}
				ptr := ""
				if len(esc) > 0 {
					ptr = "/" + strings.Join(esc, "/")
				}
				ptrs = append(ptrs, ptr)
				vals = append(vals, d)
			}
		}
		return n
	})
	return
}

func (c15) Run(c *fw.Case) {
	if c.Idx%6 == 5 {
		failedCalls(c) // call history: failed calls before the case must leave nothing behind
	}
	r := c.R
	if c.Idx%10 == 4 {
		c15{}.defaultsBesideRefs(c)
		return
	}
	g := &dgen{r: r, names: []string{"a", "b", "c", "é"}, noNull: c.Idx%3 != 0}
	if c.Idx%5 == 2 {
		// names that are other names joined by a separator: whatever an implementation joins or splits (required lists, paths,
		// cache keys) must keep ["a,b"] and ["a","b"] apart
		sep := gen.Pick(r, []string{",", ",", " ", "/", "|", "\x00", ".", ":", "~1", "\n"})
		g.names = []string{"a", "b", "a" + sep + "b", "c", "a" + sep + "b" + sep + "c", "b" + sep + "c"}
		g.sep = sep
	}
	doc := g.node(0, c.Idx%2 == 0)
	text := gen.Text(doc)
	// L5
	{
		var s jsonschema.Schema
		var err error
		if !c.CallChecked("Unmarshal+Resolve(ValidateDefaults)", map[string]any{"schema": json.RawMessage(text)}, func() {
			if err = json.Unmarshal([]byte(text), &s); err == nil {
				_, err = s.Resolve(&jsonschema.ResolveOptions{ValidateDefaults: true})
			}
		}) {
			return
		}
		if m, merr := refmodel.Build(&refmodel.Universe{Draft: refmodel.D2020, Root: gen.Parse(text)}); merr == nil {
			m.MaxSteps = 20000
			ptrs, vals := collectDefaults(gen.Parse(text))
			allOK, decided := true, true
			bad := ""
			for i, p := range ptrs {
				ok, verr := m.ValidateAt(p, vals[i])
				if verr != nil {
					decided = false
					break
				}
				if !ok {
					allOK = false
					bad = p
				}
			}
			if decided {
				c.Eval(1)
				c.Count(fmt.Sprintf("L5_all_defaults_valid=%v", allOK), 1)
				if allOK != (err == nil) {
					c.Violation(fmt.Sprintf("Resolve(ValidateDefaults) error=%v but the model says all defaults valid=%v", err, allOK), map[string]any{"schema": json.RawMessage(text), "invalid_default_at": bad})
					return
				}
				if !allOK {
					c.Nontrivial("L5|bad|" + fmt.Sprint(len(ptrs)))
				}
			}
		}
	}
	rs, err, ok := compileDoc(c, text, nil)
	if !ok || err != nil {
		return
	}
	if c.Idx%4 == 1 {
		// the same schema as a Go value whose raw defaults carry insignificant whitespace (json.RawMessage is caller-supplied
		// JSON text; " {}" denotes the same value as "{}")
		var s jsonschema.Schema
		if json.Unmarshal([]byte(text), &s) == nil {
			padDefaults(&s, r, 0)
			var rs2 *jsonschema.Resolved
			var rerr error
			if !c.CallChecked("Resolve", map[string]any{"schema": json.RawMessage(text), "defaults": "whitespace-padded"}, func() { rs2, rerr = s.Resolve(nil) }) {
				return
			}
			if rerr != nil {
				c.Violation("Resolve fails when raw defaults carry surrounding whitespace: "+rerr.Error(), map[string]any{"schema": json.RawMessage(text)})
				return
			}
			rs = rs2
			c.Count("schemas_with_whitespace_padded_defaults", 1)
		}
	}
	conflict := false
	if req, ok := doc["required"].([]any); ok {
		for _, q := range req {
			if sub, ok := doc["properties"].(map[string]any)[fmt.Sprint(q)].(map[string]any); ok {
				if _, has := sub["default"]; has {
					conflict = true
				}
			}
		}
	}
	// two documents completed with the same Resolved must not alias each other: fill A, scribble over everything that
	// was inserted into A, then fill an identical B - B must come out as A did before the scribbling
	{
		imA := g.instance(doc, 0)
		var a, b any = gen.Canonical(gen.Text(imA)), gen.Canonical(gen.Text(imA))
		var ea, eb error
		if !c.CallChecked("ApplyDefaults", map[string]any{"schema": json.RawMessage(text), "instance": gen.Text(imA)}, func() { ea = rs.ApplyDefaults(&a) }) {
			return
		}
		if ea == nil {
			before, _ := modelForm(a)
			scribble(a)
			if !c.CallChecked("ApplyDefaults", map[string]any{"schema": json.RawMessage(text), "instance": gen.Text(imA)}, func() { eb = rs.ApplyDefaults(&b) }) {
				return
			}
			after, merr := modelForm(b)
			c.Eval(1)
			if eb != nil || merr != nil || canon.Must(after) != canon.Must(before) {
				c.Violation("two documents completed with one Resolved share inserted values: changing the first document's inserted defaults changed what the second one received",
					map[string]any{"schema": json.RawMessage(text), "instance": json.RawMessage(gen.Text(imA)), "first_result": json.RawMessage(gen.Text(before)), "second_result_after_mutating_the_first": json.RawMessage(gen.Text(after)), "error": fmt.Sprint(eb)})
				return
			}
		}
	}
	for k := 0; k < 10; k++ {
		im := g.instance(doc, 0)
		var tr gen.ReprTrace
		inst := gen.Repr(r, im, gen.ReprOpts{NoTyped: !g.noNull, NoArrays: true}, &tr)
		descBefore := gen.Describe(inst)
		before, merr := modelForm(inst)
		if merr != nil {
			continue
		}
		// ApplyDefaults takes a pointer to the instance
		holder := inst
		var aerr error
		if !c.CallChecked("ApplyDefaults", map[string]any{"schema": json.RawMessage(text), "instance": descBefore}, func() { aerr = rs.ApplyDefaults(&holder) }) {
			return
		}
		c.Eval(1)
		after, merr := modelForm(holder)
		if merr != nil {
			c.Violation("the instance is no longer JSON-marshalable after ApplyDefaults: "+merr.Error(), map[string]any{"schema": json.RawMessage(text), "instance": descBefore})
			return
		}
		wit := map[string]any{"schema": json.RawMessage(text), "instance_go": descBefore, "before": json.RawMessage(gen.Text(before)), "after": json.RawMessage(gen.Text(after)), "apply_error": fmt.Sprint(aerr)}
		maxDepth := -1
		if aerr != nil {
			// only L2 (nothing present may be lost or changed); additions may be partial
			c.Count("apply_errors", 1)
			if p := onlyGrows(before, after, ""); p != "" {
				c.Violation("ApplyDefaults returned an error and also changed a present value: "+p, wit)
				return
			}
			continue
		}
		if p := justify(doc, before, after, "", &maxDepth, 0); p != "" {
			c.Violation("ApplyDefaults made an unjustified change: "+p, wit)
			return
		}
		// L1: idempotence
		var aerr2 error
		if !c.CallChecked("ApplyDefaults (second application)", wit, func() { aerr2 = rs.ApplyDefaults(&holder) }) {
			return
		}
		again, merr := modelForm(holder)
		if merr != nil || aerr2 != nil || canon.Must(again) != canon.Must(after) {
			wit["after_second_application"] = json.RawMessage(gen.Text(again))
			wit["second_error"] = fmt.Sprint(aerr2)
			c.Violation("ApplyDefaults is not idempotent", wit)
			return
		}
		if maxDepth >= 1 || (conflict && maxDepth >= 0) {
			c.Nontrivial(fmt.Sprintf("d%d|conflict=%v|%s", maxDepth, conflict, tr.Key()))
		}
		if maxDepth >= 0 {
			c.Count("applications_that_inserted", 1)
		}
		if c.Idx%3000 == 0 && k == 0 {
			c.Sample(map[string]any{"schema": json.RawMessage(text), "before": json.RawMessage(gen.Text(before)), "after": json.RawMessage(gen.Text(after))})
		}
	}
}

// onlyGrows: every value present before is present and equal after (objects may gain keys).
func onlyGrows(before, after any, path string) string {
	bo, bIsObj := before.(map[string]any)
	ao, aIsObj := after.(map[string]any)
	if !bIsObj || !aIsObj {
		if canon.Must(before) != canon.Must(after) {
			return fmt.Sprintf("%s: %s became %s", path, gen.Text(before), gen.Text(after))
		}
		return ""
	}
	for k, bv := range bo {
		av, ok := ao[k]
		if !ok {
			return fmt.Sprintf("%s: key %q disappeared", path, k)
		}
		if p := onlyGrows(bv, av, path+"/"+k); p != "" {
			return p
		}
	}
	return ""
}

// scribble overwrites every container reachable from v in place (maps get a new key and their values replaced, slices get
// their elements replaced): whoever aliases these containers will see it.
func scribble(v any) {
	switch x := v.(type) {
	case map[string]any:
		for k, e := range x {
			scribble(e)
			switch e.(type) {
			case map[string]any, []any:
			default:
				x[k] = "SCRIBBLED"
			}
		}
		x["zz-scribble"] = true
	case []any:
		for i, e := range x {
			scribble(e)
			switch e.(type) {
			case map[string]any, []any:
			default:
				x[i] = "SCRIBBLED"
			}
		}
	}
}

// padDefaults surrounds every raw default in the tree with insignificant JSON whitespace.
func padDefaults(s *jsonschema.Schema, r *rand.Rand, depth int) {
	if s == nil || depth > 8 {
		return
	}
	if s.Default != nil && r.IntN(3) > 0 {
		s.Default = json.RawMessage(gen.Pick(r, []string{" ", "\n  ", "\t", "\r\n"}) + string(s.Default) + gen.Pick(r, []string{"", " ", "\n"}))
	}
	for _, c := range s.Properties {
		padDefaults(c, r, depth+1)
	}
	for _, c := range s.AllOf {
		padDefaults(c, r, depth+1)
	}
	padDefaults(s.Items, r, depth+1)
	for _, c := range s.Defs {
		padDefaults(c, r, depth+1)
	}
}

// defaultsBesideRefs (L5 with references, both drafts): a default may sit in a subschema that is, or contains, a reference.
// It has to validate against the subschema that declares it - under draft-07 a subschema with $ref IS its target (siblings
// such as type are ignored), under 2020-12 target and siblings both count. Defaults are drawn valid or invalid for the target.
func (c15) defaultsBesideRefs(c *fw.Case) {
	r := c.R
	d7 := r.IntN(2) == 0
	defsKey, draft := "$defs", refmodel.D2020
	doc := map[string]any{}
	if d7 {
		defsKey, draft = "definitions", refmodel.D7
		doc["$schema"] = gen.Schema7URI
	}
	targets := map[string]any{
		"port": map[string]any{"type": "integer", "minimum": json.Number("1")},
		"name": map[string]any{"type": "string", "minLength": json.Number("2")},
		"flag": map[string]any{"type": "boolean"},
		"list": map[string]any{"type": "array", "items": map[string]any{"type": "integer"}},
	}
	doc[defsKey] = targets
	vals := []any{json.Number("80"), json.Number("0"), "eighty", "x", true, nil, []any{json.Number("1")}, []any{"a"}, json.Number("1.5")}
	props := map[string]any{}
	for i := 0; i < 1+r.IntN(3); i++ {
		tname := gen.Pick(r, sortedKeys(targets))
		node := map[string]any{"$ref": "#/" + defsKey + "/" + tname, "default": gen.Clone(gen.Pick(r, vals))}
		switch r.IntN(4) {
		case 0: // a sibling that contradicts the target: ignored under draft-07, binding under 2020-12
			node["type"] = gen.Pick(r, []string{"null", "string", "integer"})
		case 1: // the reference one level down, the default beside the applicator
			node = map[string]any{"allOf": []any{map[string]any{"$ref": node["$ref"]}}, "default": node["default"]}
		}
		props[fmt.Sprintf("p%d", i)] = node
	}
	doc["properties"] = props
	// a document served by the Loader with defaults of its own - also invalid ones: it is not part of the ROOT schema tree,
	// whose defaults alone decide whether Resolve succeeds
	var docs map[string]string
	ropts := &jsonschema.ResolveOptions{ValidateDefaults: true}
	mdocs := map[string]any{}
	if r.IntN(3) == 0 {
		remote := map[string]any{"type": "string", "default": gen.Pick(r, []any{json.Number("5"), "ok", nil}), "properties": map[string]any{"q": map[string]any{"type": "integer", "default": gen.Pick(r, []any{"bad", json.Number("1")})}}}
		if d7 {
			remote["$schema"] = gen.Schema7URI
		}
		docs = map[string]string{"http://h/r.json": gen.Text(remote)}
		mdocs["http://h/r.json"] = gen.Parse(docs["http://h/r.json"])
		props["viaLoader"] = map[string]any{"$ref": "http://h/r.json"}
		ld := &mapLoader{docs: docs}
		ropts.Loader = ld.load
		ropts.BaseURI = "http://h/root.json"
	}
	text := gen.Text(doc)
	var s jsonschema.Schema
	var err error
	if !c.CallChecked("Unmarshal+Resolve(ValidateDefaults)", map[string]any{"schema": json.RawMessage(text), "loader_documents": docs}, func() {
		if err = json.Unmarshal([]byte(text), &s); err == nil {
			_, err = s.Resolve(ropts)
		}
	}) {
		return
	}
	m, merr := refmodel.Build(&refmodel.Universe{Draft: draft, BaseURI: ropts.BaseURI, Root: gen.Parse(text), Docs: mdocs})
	if merr != nil {
		return
	}
	m.MaxSteps = 20000
	ptrs, dvals := collectDefaults(gen.Parse(text))
	allOK, bad := true, ""
	for i, p := range ptrs {
		ok, verr := m.ValidateAt(p, dvals[i])
		if verr != nil {
			return
		}
		if !ok {
			allOK, bad = false, p
		}
	}
	c.Eval(1)
	c.Count(fmt.Sprintf("L5refs_all_defaults_valid=%v_d7=%v", allOK, d7), 1)
	if allOK != (err == nil) {
		c.Violation(fmt.Sprintf("Resolve(ValidateDefaults) error=%v but the model says all defaults valid=%v (defaults beside references)", err, allOK), map[string]any{"schema": json.RawMessage(text), "invalid_default_at": bad})
		return
	}
	c.Nontrivial(fmt.Sprintf("L5refs|d7=%v|ok=%v|%d", d7, allOK, len(ptrs)))
}

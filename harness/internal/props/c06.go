package props

import (
	"encoding/json"
	"fmt"

	"verif/internal/fw"
	"verif/internal/gen"
	"verif/internal/refmodel"
)

// C06: $dynamicRef follows the dynamic scope exactly as specified.
type c06 struct{}

func init() { register(c06{}) }

func (c06) ID() string { return "C06" }
func (c06) Cases(t fw.Tier) int {
	return tierN(t, 50000, 1500000)
}
func (c06) Race(t fw.Tier) bool { return false }
func (c06) Rule() string {
	return "each case generates a dynamic-scope topology: 1-5 schema resources (embedded, nested, or Loader-supplied), each declaring under $defs/cand a uniquely marked candidate {const:'T<i>'} with $dynamicAnchor 'node', a plain $anchor 'node', or no anchor; " +
		"a chain enters a random subset of them in random order through $ref / pointer-form $dynamicRef hops wrapped in allOf / anyOf / properties / items / nothing, and ends in the $dynamicRef under test in fragment ('#node'), resource-relative / absolute ('rK.json#node') or pointer form. " +
		"MARKER TECHNIQUE: the verdict vector over all markers sent down the route identifies the candidate chosen; it is compared with the reference model's own dynamic-scope walk. " +
		"Histories: after the per-marker pass a seeded sequence of 30 mixed valid/invalid calls is replayed on the same Resolved and each verdict compared again (no scope leak between calls). " +
		"Non-trivial: >=2 resources on the chain declare the dynamic anchor and at least one plausible wrong rule (innermost-first, or purely lexical) picks another candidate; distinct by (candidate kinds, chain order, hop kinds, final form)."
}
func (c06) Assumptions() []string {
	return []string{"reference model dynamic-scope rule: if the statically resolved target carries $dynamicAnchor of the fragment name, the outermost resource in the dynamic scope with that dynamic anchor wins; otherwise the static target",
		"loader documents are only referenced as whole documents plus a fragment"}
}

func (c06) Run(c *fw.Case) {
	if c.Idx%6 == 5 {
		failedCalls(c) // call history: failed calls before the case must leave nothing behind
	}
	r := c.R
	u := gen.NewDynUniverse(r)
	mc := &modelCase{draft: refmodel.D2020, rootText: u.Root, baseURI: u.BaseURI, docs: u.Docs}
	m, rs, _, ok := mc.build(c)
	if !ok {
		return
	}
	// what wrong rules would answer
	wrong := []*refmodel.Model{}
	for _, rule := range []refmodel.DynRule{refmodel.DynInnermost, refmodel.DynLexical} {
		uu := &refmodel.Universe{Draft: refmodel.D2020, BaseURI: u.BaseURI, Root: gen.Parse(u.Root)}
		if len(u.Docs) > 0 {
			uu.Docs = map[string]any{}
			for k, v := range u.Docs {
				uu.Docs[k] = gen.Parse(v)
			}
		}
		if wm, err := refmodel.Build(uu); err == nil {
			wm.DynRule = rule
			wm.MaxSteps = 20000
			wrong = append(wrong, wm)
		}
	}
	var ts traceStats
	differs := false
	type obs struct {
		inst  any
		valid bool
	}
	var seen []obs
	// one marker per chain; with a fork all ordered pairs are sent (the same $dynamicRef is then evaluated
	// under two dynamic scopes within one call)
	var combos [][]any
	for _, m1 := range u.Markers {
		if len(u.Routes) == 1 {
			combos = append(combos, []any{m1})
			continue
		}
		for _, m2 := range u.Markers {
			combos = append(combos, []any{m1, m2})
		}
	}
	if len(combos) > 48 { // size-stressed topologies (up to 70 resources): a seeded sample of the marker combinations
		r.Shuffle(len(combos), func(i, j int) { combos[i], combos[j] = combos[j], combos[i] })
		combos = combos[:48]
	}
	for _, combo := range combos {
		inst := u.Wrap(combo...)
		valid, decided := mc.compare(c, m, rs, inst, &ts, fmt.Sprintf("$dynamicRef %q", u.Final))
		if !decided {
			continue
		}
		seen = append(seen, obs{inst, valid})
		for _, wm := range wrong {
			if wv, err := wm.Validate(gen.Parse(gen.Text(inst))); err == nil && wv != valid {
				differs = true
			}
		}
	}
	// history: the same Resolved, a seeded mixed sequence; verdicts must repeat
	for k := 0; k < 30 && len(seen) > 0; k++ {
		o := seen[r.IntN(len(seen))]
		var inst any = o.inst
		want := o.valid
		if r.IntN(4) == 0 { // a junk call in between (fails early or passes trivially)
			inst = gen.Value(r, gen.ValueOpts{MaxDepth: 1}, 0)
			v, err := m.Validate(gen.Parse(gen.Text(inst)))
			if err != nil {
				continue
			}
			want = v
		}
		itext := gen.Text(inst)
		got, ok := validate(c, rs, u.Root, gen.Canonical(itext), itext)
		if !ok {
			return
		}
		c.Eval(1)
		if got != want {
			c.Violation(fmt.Sprintf("call %d of a history on one Resolved: valid=%v, expected %v (scope leak between calls?)", k, got, want), mc.witness(map[string]any{"instance": json.RawMessage(itext), "history_position": k}))
			return
		}
	}
	if u.NDyn >= 2 && differs {
		c.Nontrivial(u.Shape)
		c.Count("wrong_rule_distinguishable", 1)
	}
	if c.Idx%4000 == 0 {
		docs := map[string]any{}
		for k, v := range u.Docs {
			docs[k] = json.RawMessage(v)
		}
		c.Sample(map[string]any{"root": json.RawMessage(u.Root), "loader_documents": docs, "final_dynamicRef": u.Final, "routes": u.Routes, "shape": u.Shape})
	}
}

package props

import (
	"encoding/json"
	"fmt"
	"strings"

	"verif/internal/fw"
	"verif/internal/gen"
	"verif/internal/refmodel"
)

// C07: unevaluated* see exactly what adjacent and in-place keywords evaluated.
type c07 struct{}

func init() { register(c07{}) }

func (c07) ID() string { return "C07" }
func (c07) Cases(t fw.Tier) int {
	return tierN(t, 40000, 800000)
}
func (c07) Rule() string {
	return "dedicated workload: 2020-12 schemas with unevaluatedProperties / unevaluatedItems (false, a type schema, nested) at the root and at nested nodes, combined with local evaluators " +
		"(properties, patternProperties, additionalProperties, prefixItems, items, contains) and 1-3 levels of in-place applicators (allOf, anyOf, oneOf, not, if/then/else, dependentSchemas, $ref, $dynamicRef) " +
		"whose branches evaluate different subsets of a 4-name / 2-item pool, including failing branches that contain evaluators. Instances are EXHAUSTIVE per schema: all 81 objects over the name pool " +
		"(each name absent / 1 / \"x\") or all 31 arrays of length 0-4 over the item pool. Oracle: reference model with first-class annotation sets. " +
		"Every fifth case serves the schema from a Loader document referenced by a root that mentions no unevaluated* itself. A case is non-trivial when deleting every unevaluated* keyword from the document flips the model's verdict (the keyword was decisive); distinct by (set of applicator keywords in the schema, instance shape, verdict)."
}
func (c07) Assumptions() []string {
	return []string{"reference model annotations follow the 2020-12 rules (annotations only from successful subschemas, never from not, cousins invisible); suite-tested incl. unevaluatedItems/Properties files",
		"equivalent mutants are known and not expected to fire: passing the annotation collector into not; merge aliasing instead of cloning"}
}

func stripUneval(v any) any {
	return mapSchemas(v, nil, func(n any, _ []string) any {
		if m, ok := n.(map[string]any); ok {
			delete(m, "unevaluatedProperties")
			delete(m, "unevaluatedItems")
		}
		return n
	})
}

func (c07) Run(c *fw.Case) {
	if c.Idx%6 == 5 {
		failedCalls(c) // call history: failed calls before the case must leave nothing behind
	}
	r := c.R
	doc, array := gen.UnevalSchema(r)
	text := gen.Text(doc)
	mc := &modelCase{draft: refmodel.D2020, rootText: text}
	remote := c.Idx%5 == 4
	if remote {
		// the unevaluated* schema lives in a Loader document; the root, which mentions no unevaluated* at all, only refers to it
		rootDoc := gen.Pick(r, []map[string]any{{"$ref": "http://h/u.json"}, {"allOf": []any{map[string]any{"$ref": "u.json"}}}, {"$ref": "http://h/u.json", "title": "t"}, {"anyOf": []any{false, map[string]any{"$ref": "/u.json"}}}})
		mc = &modelCase{draft: refmodel.D2020, rootText: gen.Text(rootDoc), baseURI: "http://h/root.json", docs: map[string]string{"http://h/u.json": text}}
	}
	m, rs, _, ok := mc.build(c)
	if !ok {
		return
	}
	// the same document without unevaluated*: decides whether the keyword mattered
	bareU := &refmodel.Universe{Draft: refmodel.D2020, Root: stripUneval(gen.Parse(text))}
	if remote {
		bareU = &refmodel.Universe{Draft: refmodel.D2020, BaseURI: mc.baseURI, Root: gen.Parse(mc.rootText), Docs: map[string]any{"http://h/u.json": stripUneval(gen.Parse(text))}}
	}
	bare, err := refmodel.Build(bareU)
	if err != nil {
		bare = nil
	}
	kws := map[string]bool{}
	keywordSet(doc, kws, 0)
	var shape []string
	for _, k := range []string{"allOf", "anyOf", "oneOf", "not", "if", "then", "else", "dependentSchemas", "$ref", "$dynamicRef", "contains", "patternProperties", "additionalProperties", "items", "prefixItems", "properties"} {
		if kws[k] {
			shape = append(shape, k)
		}
	}
	shapeKey := strings.Join(shape, ",")
	var ts traceStats
	insts := gen.UInstances(array)
	if c.Idx%2 == 0 {
		insts = append(insts, gen.ULongInstances(r, array, 4)...) // size stress: 63..257 items / properties
	}
	if !array && c.Idx%5 == 3 {
		// names the schema does not know, among them the empty name and names made of separators: one (or the only) property
		// of the object is then evaluated by nothing that names it
		odd := gen.Pick(r, []string{"", "", " ", ",", "/", "a,b"})
		from := gen.Pick(r, gen.UNames)
		renamed := make([]any, 0, len(insts))
		for _, im := range insts {
			o, isObj := im.(map[string]any)
			if v, has := o[from]; isObj && has {
				o2 := map[string]any{}
				for k, x := range o {
					o2[k] = x
				}
				delete(o2, from)
				o2[odd] = v
				im = o2
			}
			renamed = append(renamed, im)
		}
		insts = renamed
	}
	for _, im := range insts {
		valid, decided := mc.compare(c, m, rs, im, &ts, "unevaluated*")
		if !decided {
			continue
		}
		if bare != nil {
			bv, err := bare.Validate(im)
			if err == nil && bv != valid {
				c.Count("uneval_decisive", 1)
				c.Nontrivial(fmt.Sprintf("%s|%s|%v", shapeKey, instShape(im), valid))
			}
		}
	}
	if c.Idx%2000 == 0 {
		c.Sample(map[string]any{"schema": json.RawMessage(text), "instances": "exhaustive pool", "array": array})
	}
}

func instShape(v any) string {
	switch x := v.(type) {
	case []any:
		return fmt.Sprintf("arr%d", len(x))
	case map[string]any:
		return "obj:" + strings.Join(sortedKeys(x), "")
	}
	return "other"
}

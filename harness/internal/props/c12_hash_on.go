//go:build verif

package props

import (
	"fmt"
	"hash/maphash"

	"github.com/google/jsonschema-go/jsonschema"

	"verif/internal/canon"
	"verif/internal/fw"
	"verif/internal/gen"
)

func (c12) hashLaw(c *fw.Case) {
	r := c.R
	for k := 0; k < 12; k++ {
		m := gen.Value(r, gen.ValueOpts{MaxDepth: 3, BigInts: true, MaxLen: 3}, 0)
		var tx, ty gen.ReprTrace
		x := gen.Repr(r, m, gen.ReprOpts{}, &tx)
		y := gen.Repr(r, m, gen.ReprOpts{}, &ty)
		if canon.Must(x) != canon.Must(y) {
			panic("hashLaw: generator produced unequal representations")
		}
		for s := 0; s < 4; s++ {
			seed := maphash.MakeSeed()
			var hx, hy uint64
			if !c.CallChecked("VerifHashValue", gen.Describe(x), func() { hx = jsonschema.VerifHashValue(seed, x) }) {
				return
			}
			if !c.CallChecked("VerifHashValue", gen.Describe(y), func() { hy = jsonschema.VerifHashValue(seed, y) }) {
				return
			}
			c.Eval(1)
			if hx != hy {
				c.Violation("equal JSON values hash differently under the same seed (uniqueItems would call duplicates unique)",
					map[string]any{"x": gen.Describe(x), "y": gen.Describe(y), "canon": canon.Must(x)})
				return
			}
		}
		if tx.Key() != ty.Key() {
			c.Nontrivial(fmt.Sprintf("h|%s|%s", tx.Key(), ty.Key()))
		}
		c.Count("hash_law_pairs", 1)
	}
}

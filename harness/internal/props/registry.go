// Package props holds one monitor per property (C01..C20).
package props

import (
	"sort"

	"verif/internal/fw"
)

var registry = map[string]fw.Property{}

func register(p fw.Property) { registry[p.ID()] = p }

func Get(id string) fw.Property { return registry[id] }

func IDs() []string {
	var ids []string
	for id := range registry {
		ids = append(ids, id)
	}
	sort.Strings(ids)
	return ids
}

func tierN(t fw.Tier, quick, thorough int) int {
	if t == fw.Thorough {
		return thorough
	}
	return quick
}

package props

import (
	"encoding/json"
	"fmt"
	"math/rand/v2"
	"net/url"
	"reflect"
	"sort"

	"github.com/google/jsonschema-go/jsonschema"

	"verif/internal/fw"
	"verif/internal/gen"
)

// compileDoc sends a schema document through Schema.UnmarshalJSON and Resolve, guarded.
// ok=false means the call panicked / overran (already reported as a violation).
func compileDoc(c *fw.Case, text string, opts *jsonschema.ResolveOptions) (rs *jsonschema.Resolved, err error, ok bool) {
	var s jsonschema.Schema
	if c.R.IntN(8) == 0 && json.Valid([]byte(text)) {
		text = gen.Relayout(c.R, text) // insignificant whitespace is free (RFC 8259)
	}
	goOnly := c.R.IntN(6) == 0
	editedInGo := c.R.IntN(8) == 0
	ok = c.CallChecked("Unmarshal+Resolve", map[string]any{"schema": json.RawMessage(text), "go_only_fields_set": goOnly, "nodes_decoded_from_a_decoy_then_overwritten_in_go": editedInGo}, func() {
		if err = json.Unmarshal([]byte(text), &s); err != nil {
			err = fmt.Errorf("unmarshal: %w", err)
			return
		}
		if goOnly {
			setGoOnlyFields(c.R, &s)
		}
		if editedInGo {
			decodeDecoyThenRestore(c.R, &s)
		}
		rs, err = s.Resolve(opts)
		if err != nil {
			err = fmt.Errorf("resolve: %w", err)
		}
	})
	return
}

// validate runs Validate guarded; ok=false when it panicked (violation already recorded).
func validate(c *fw.Case, rs *jsonschema.Resolved, schemaText string, inst any, instDesc string) (valid bool, ok bool) {
	var err error
	ok = c.CallChecked("Validate", map[string]any{"schema": json.RawMessage(schemaText), "instance": instDesc}, func() {
		err = rs.Validate(inst)
	})
	return err == nil, ok
}

// mapLoader serves documents (JSON text) by absolute URI; it records every request.
type mapLoader struct {
	docs     map[string]string
	fail     map[string]bool
	requests []string
	// caching: the same *Schema object is handed out for a URI on every request (as a Loader with a cache does),
	// instead of a fresh decoding per request
	caching bool
	cache   map[string]*jsonschema.Schema
}

func (l *mapLoader) load(u *url.URL) (*jsonschema.Schema, error) {
	l.requests = append(l.requests, u.String())
	if l.fail[u.String()] {
		return nil, fmt.Errorf("injected loader fault for %s", u)
	}
	text, ok := l.docs[u.String()]
	if !ok {
		return nil, fmt.Errorf("no such document %s", u)
	}
	if l.caching {
		if cs := l.cache[u.String()]; cs != nil {
			return cs, nil
		}
	}
	var s jsonschema.Schema
	if err := json.Unmarshal([]byte(text), &s); err != nil {
		return nil, err
	}
	if l.caching {
		if l.cache == nil {
			l.cache = map[string]*jsonschema.Schema{}
		}
		l.cache[u.String()] = &s
	}
	return &s, nil
}

// forEachSchema visits s and every Schema reachable from it through schema-valued fields (own reflection walk).
func forEachSchema(s *jsonschema.Schema, f func(*jsonschema.Schema)) {
	seen := map[*jsonschema.Schema]bool{}
	schemaT := reflect.TypeFor[*jsonschema.Schema]()
	var walk func(s *jsonschema.Schema)
	walk = func(s *jsonschema.Schema) {
		if s == nil || seen[s] {
			return
		}
		seen[s] = true
		f(s)
		v := reflect.ValueOf(s).Elem()
		for i := 0; i < v.NumField(); i++ {
			fv := v.Field(i)
			if !v.Type().Field(i).IsExported() {
				continue
			}
			switch {
			case fv.Type() == schemaT:
				walk(fv.Interface().(*jsonschema.Schema))
			case fv.Kind() == reflect.Slice && fv.Type().Elem() == schemaT:
				for j := 0; j < fv.Len(); j++ {
					walk(fv.Index(j).Interface().(*jsonschema.Schema))
				}
			case fv.Kind() == reflect.Map && fv.Type().Elem() == schemaT:
				keys := fv.MapKeys()
				sort.Slice(keys, func(a, b int) bool { return keys[a].String() < keys[b].String() })
				for _, k := range keys {
					walk(fv.MapIndex(k).Interface().(*jsonschema.Schema))
				}
			}
		}
	}
	walk(s)
}

// setGoOnlyFields fills the fields of a decoded Schema tree that no JSON document can set (PropertyOrder is `json:"-"`;
// For/ForType set it, and so may any program that builds or edits schemas in Go). They describe how to MARSHAL the schema
// and must not influence Resolve, Validate or ApplyDefaults.
func setGoOnlyFields(r *rand.Rand, root *jsonschema.Schema) {
	forEachSchema(root, func(s *jsonschema.Schema) {
		if len(s.Properties) == 0 || r.IntN(3) == 0 {
			return
		}
		names := sortedKeys(s.Properties)
		var order []string
		switch r.IntN(4) {
		case 0: // every property, in field order as For would list them
			for _, i := range r.Perm(len(names)) {
				order = append(order, names[i])
			}
		case 1: // the required ones first
			order = append(order, s.Required...)
		case 2: // a subset
			for _, n := range names {
				if r.IntN(2) == 0 {
					order = append(order, n)
				}
			}
		default: // with names that are not properties
			for _, n := range names {
				order = append(order, n, "absent-"+n)
			}
		}
		seen := map[string]bool{}
		var dedup []string
		for _, n := range order {
			if !seen[n] {
				seen[n] = true
				dedup = append(dedup, n)
			}
		}
		s.PropertyOrder = dedup
	})
}

// decoyDocs are rich documents whose decoding would leave plenty behind if a Schema remembered anything beside its
// exported fields (compiled patterns, keyword fast paths, sets derived from enum / required ...).
var decoyDocs = []string{
	`{"enum":["red","green"],"const":"red","pattern":"^r","required":["zz"],"type":"string","minLength":2,"maxLength":3,"properties":{"p":false},"patternProperties":{"^x":false},"items":false,"dependentRequired":{"a":["b"]},"format":"email","multipleOf":3,"uniqueItems":true,"additionalProperties":false,"minimum":5,"x-unknown":1}`,
	`{"type":["integer","null"],"enum":[1,2,3],"allOf":[false],"not":true,"if":true,"then":false,"contains":false,"minContains":2,"prefixItems":[false],"unevaluatedItems":false,"unevaluatedProperties":false,"propertyNames":false,"dependentSchemas":{"a":false},"default":{"a":1},"title":"decoy"}`,
	`{"$schema":"http://json-schema.org/draft-07/schema#","items":[false,false],"additionalItems":false,"dependencies":{"a":["b"],"c":false},"definitions":{"d":false},"enum":["only"],"maxProperties":0,"maxItems":0}`,
}

// decodeDecoyThenRestore models a program that decodes a schema and then edits it in Go before Resolve: for one to three
// nodes of the tree, a DECOY document is decoded into the node (json.Unmarshal merges into the existing value, as for any
// struct) and then every exported field is set back to the value it had. The exported fields - the only ones a program can
// see - are exactly those of the original document, so Resolve and Validate must behave as for the original document;
// anything Unmarshal remembered outside the exported fields is now stale.
func decodeDecoyThenRestore(r *rand.Rand, root *jsonschema.Schema) {
	var nodes []*jsonschema.Schema
	forEachSchema(root, func(s *jsonschema.Schema) { nodes = append(nodes, s) })
	for k := 1 + r.IntN(3); k > 0; k-- {
		n := nodes[0]
		if r.IntN(3) > 0 {
			n = nodes[r.IntN(len(nodes))]
		}
		saved := *n // (shallow: the children stay the original objects)
		dst, src := reflect.ValueOf(n).Elem(), reflect.ValueOf(&saved).Elem()
		for i := 0; i < dst.NumField(); i++ {
			if dst.Type().Field(i).IsExported() {
				dst.Field(i).SetZero() // so that the decoder allocates its own maps and slices instead of writing into the original's
			}
		}
		if err := json.Unmarshal([]byte(decoyDocs[r.IntN(len(decoyDocs))]), n); err != nil {
			*n = saved
			continue
		}
		for i := 0; i < dst.NumField(); i++ {
			if dst.Type().Field(i).IsExported() {
				dst.Field(i).Set(src.Field(i))
			}
		}
	}
}

// shareSubschemas turns a Schema tree into a DAG: at one to three places a sub-schema OBJECT is used twice (two properties,
// two allOf branches, then and else ...), as a program does that builds schemas from shared Go values
// (addr := &Schema{...}; Properties{"billing": addr, "shipping": addr}). Such a value cannot be resolved (Resolve demands a
// tree) but it can be marshaled and cloned. Returns the number of shared uses made.
func shareSubschemas(r *rand.Rand, root *jsonschema.Schema) int {
	var nodes []*jsonschema.Schema
	forEachSchema(root, func(s *jsonschema.Schema) { nodes = append(nodes, s) })
	made := 0
	for k := 1 + r.IntN(3); k > 0; k-- {
		n := nodes[r.IntN(len(nodes))]
		switch r.IntN(4) {
		case 0:
			if len(n.Properties) >= 2 {
				ks := sortedKeys(n.Properties)
				i, j := r.IntN(len(ks)), r.IntN(len(ks))
				if i != j && n.Properties[ks[i]] != nil {
					n.Properties[ks[j]] = n.Properties[ks[i]]
					made++
				}
			}
		case 1:
			if len(n.AllOf) >= 2 && n.AllOf[0] != nil {
				n.AllOf[len(n.AllOf)-1] = n.AllOf[0]
				made++
			} else if len(n.AnyOf) >= 2 && n.AnyOf[0] != nil {
				n.AnyOf[len(n.AnyOf)-1] = n.AnyOf[0]
				made++
			}
		case 2:
			if n.Then != nil {
				n.Else = n.Then
				made++
			} else if n.Items != nil {
				n.Contains = n.Items
				made++
			}
		default:
			// the same object at two DEPTHS: a property value also used as additionalProperties of the parent
			if len(n.Properties) >= 1 {
				ks := sortedKeys(n.Properties)
				if p := n.Properties[ks[r.IntN(len(ks))]]; p != nil && p != n {
					n.AdditionalProperties = p
					made++
				}
			}
		}
	}
	return made
}

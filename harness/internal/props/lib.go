package props

import (
	"encoding/json"
	"fmt"
	"net/url"

	"github.com/google/jsonschema-go/jsonschema"

	"verif/internal/fw"
	"verif/internal/gen"
)

// compileDoc sends a schema document through Schema.UnmarshalJSON and Resolve, guarded.
// ok=false means the call panicked / overran (already reported as a violation).
func compileDoc(c *fw.Case, text string, opts *jsonschema.ResolveOptions) (rs *jsonschema.Resolved, err error, ok bool) {
	var s jsonschema.Schema
	if c.R.IntN(8) == 0 && json.Valid([]byte(text)) {
		text = gen.Relayout(c.R, text) // insignificant whitespace is free (RFC 8259)
	}
	ok = c.CallChecked("Unmarshal+Resolve", map[string]any{"schema": json.RawMessage(text)}, func() {
		if err = json.Unmarshal([]byte(text), &s); err != nil {
			err = fmt.Errorf("unmarshal: %w", err)
			return
		}
		rs, err = s.Resolve(opts)
		if err != nil {
			err = fmt.Errorf("resolve: %w", err)
		}
	})
	return
}

// validate runs Validate guarded; ok=false when it panicked (violation already recorded).
func validate(c *fw.Case, rs *jsonschema.Resolved, schemaText string, inst any, instDesc string) (valid bool, ok bool) {
	var err error
	ok = c.CallChecked("Validate", map[string]any{"schema": json.RawMessage(schemaText), "instance": instDesc}, func() {
		err = rs.Validate(inst)
	})
	return err == nil, ok
}

// mapLoader serves documents (JSON text) by absolute URI; it records every request.
type mapLoader struct {
	docs     map[string]string
	fail     map[string]bool
	requests []string
}

func (l *mapLoader) load(u *url.URL) (*jsonschema.Schema, error) {
	l.requests = append(l.requests, u.String())
	if l.fail[u.String()] {
		return nil, fmt.Errorf("injected loader fault for %s", u)
	}
	text, ok := l.docs[u.String()]
	if !ok {
		return nil, fmt.Errorf("no such document %s", u)
	}
	var s jsonschema.Schema
	if err := json.Unmarshal([]byte(text), &s); err != nil {
		return nil, err
	}
	return &s, nil
}

package props

import (
	"encoding/json"
	"fmt"
	"sort"
	"strings"

	"verif/internal/fw"
	"verif/internal/gen"
	"verif/internal/refmodel"
)

// C03: every $ref reaches the subschema the specification designates.
type c03 struct{}

func init() { register(c03{}) }

func (c03) ID() string { return "C03" }
func (c03) Cases(t fw.Tier) int {
	return tierN(t, 50000, 1500000)
}
func (c03) Rule() string {
	return "each case generates a reference universe: a root document plus 0-3 Loader documents (chains, diamonds, cycles via route references), each a tree of embedded resources with relative / absolute / dot-segment / urn $id values, " +
		"anchors scoped to their resource (the same anchor names reused across resources as decoys), BaseURI empty or absolute, and 3-7 references under test in every syntactic form ('#', '#/ptr', '#anchor', relative, './', '../', absolute-path, absolute, " +
		"retrieval-URI alias of a document with a canonical $id, pointers through embedded resources, odd keys needing ~ and % escapes), placed in the root, in embedded resources and in loaded documents. " +
		"MARKER TECHNIQUE: every leaf target is {const:'T<k>'} and every resource container rejects only 'N<k>', so the vector of verdicts over all markers sent down the structural route of a reference identifies which node it was validated against; " +
		"the library's vector is compared with the reference model's resolver. Fault classes: exactly one dangling reference (unknown anchor, pointer to nowhere / to a non-schema position, unknown document), Loader error on a needed or on an unneeded URI, no Loader: Resolve must fail exactly when the model says so. " +
		"The Loader callback records the request history; an offline checker verifies that no URI is requested twice and no document already returned is requested again under its retrieval URI or canonical id, and compares the request set with the model's. " +
		"20% of the universes use draft-07 ($id-anchors, definitions). Non-trivial: >=2 resources and >=1 reference decided; distinct by (reference form, universe shape)."
}
func (c03) Assumptions() []string {
	return []string{"reference model resolver (own RFC 3986 implementation, cross-checked against net/url and the RFC examples) designates the target",
		"guards: the loader serves a document under its retrieval URI and its canonical id; cross-document references address document roots plus a fragment (embedded resources of other documents are documented as not addressable by URI); with an empty BaseURI $ids are absolute; under urn: bases only fragment and absolute references are used"}
}

// checkLoaderHistory is the offline checker over the loader request log.
func checkLoaderHistory(c *fw.Case, mc *modelCase, ld *mapLoader) {
	if ld == nil {
		return
	}
	seen := map[string]string{} // URI -> why it must not be requested again
	for k, u := range ld.requests {
		if why, dup := seen[u]; dup {
			c.Violation(fmt.Sprintf("the Loader was asked for %s although %s", u, why), mc.witness(map[string]any{"loader_requests": ld.requests, "request_index": k}))
			return
		}
		seen[u] = "it was already requested"
		if text, ok := mc.docs[u]; ok && !mc.loadErr[u] {
			if m, ok := gen.Parse(text).(map[string]any); ok {
				if id, ok := m["$id"].(string); ok && id != "" {
					if canon, err := refmodel.ResolveURI(u, id); err == nil {
						if i := strings.IndexByte(canon, '#'); i >= 0 {
							canon = canon[:i]
						}
						if _, ok := seen[canon]; !ok {
							seen[canon] = fmt.Sprintf("it is the canonical id of the document already returned for %s", u)
						}
					}
				}
			}
		}
	}
	c.Count("loader_requests", len(ld.requests))
}

func (c03) Run(c *fw.Case) {
	if c.Idx%6 == 5 {
		failedCalls(c) // call history: failed calls before the case must leave nothing behind
	}
	r := c.R
	d7 := c.Idx%5 == 4
	u := gen.NewUniverse(r, d7)
	draft := refmodel.D2020
	if d7 {
		draft = refmodel.D7
	}
	mc := &modelCase{draft: draft, rootText: u.Root, baseURI: u.BaseURI, docs: u.Docs, loadErr: u.LoadErr, noLoader: u.NoLoader}
	m, rs, ld, ok := mc.build(c)
	checkLoaderHistory(c, mc, ld)
	if u.Dangling != "" || u.NoLoader || len(u.LoadErr) > 0 {
		c.Count("fault_universes", 1)
		if !ok && u.NRes >= 1 {
			c.Nontrivial("fault|" + u.Shape)
		}
	}
	if !ok {
		return
	}
	// loader request set vs the model's
	want := append([]string{}, m.Loads()...)
	got := append([]string{}, ld.requests...)
	sort.Strings(want)
	sort.Strings(got)
	if strings.Join(want, " ") != strings.Join(got, " ") {
		c.Inconclusive("loader request set differs from the model's (load order dependent universe)")
		c.Count("loader_set_mismatch", 1)
	}
	var ts traceStats
	for _, rt := range u.Routes {
		for _, mk := range u.Markers {
			if _, decided := mc.compare(c, m, rs, rt.Wrap(mk), &ts, fmt.Sprintf("$ref %q (%s) at %s", rt.Ref, rt.Form, rt.Site)); !decided {
				continue
			}
		}
		if u.NRes >= 2 {
			c.Nontrivial(rt.Form + "|" + u.Shape)
		}
		c.Count("form:"+rt.Form, 1)
	}
	if c.Idx%3000 == 0 {
		docs := map[string]any{}
		for k, v := range u.Docs {
			docs[k] = json.RawMessage(v)
		}
		c.Sample(map[string]any{"base_uri": u.BaseURI, "root": json.RawMessage(u.Root), "loader_documents": docs, "routes": u.Routes, "markers": u.Markers})
	}
}

package props

import (
	"bytes"
	"crypto/sha256"
	"encoding/hex"
	"encoding/json"
	"fmt"
	"net/url"
	"strings"

	"github.com/google/jsonschema-go/jsonschema"

	"verif/internal/fw"
	"verif/internal/gen"
	"verif/internal/snap"
)

// C14: Resolve, Validate and Marshal are pure and deterministic.
type c14 struct{}

func init() { register(c14{}) }

func (c14) ID() string { return "C14" }
func (c14) Cases(t fw.Tier) int {
	return tierN(t, 10000, 150000)
}
func (c14) Processes(t fw.Tier) int { return tierN(t, 3, 6) }
func (c14) Rule() string {
	return "each case takes a schema (generated document of either draft, biased to the map-ranging keywords properties / patternProperties with overlapping patterns / dependentRequired / dependentSchemas / dependencies / nested unevaluated*, " +
		"or a reflectively populated Schema value) and 6 instances (in canonical and in random non-canonical Go representations) and runs the history " +
		"Resolve x3, Validate x5 per instance on the first Resolved and x1 on the others, Marshal x3, Resolve again, Validate on old and new Resolved, and finally every instance once on a brand-new Resolved (the verdict must not depend on the history of earlier calls). " +
		"Monitors: a deep snapshot (all fields + pointer graph) of the Schema tree and of every instance before and after each phase must be identical; all repeated verdicts and marshaled bytes must be equal; " +
		"the whole case list is executed in 3 (quick) / 6 (thorough) fresh processes and the per-case digests (verdict bits + SHA-256 of the bytes) must agree across processes (different hash seeds, randomised map iteration). " +
		"Non-trivial: the schema has a map-ranged keyword with >=2 entries and some verdict is invalid (where evaluation order could matter); distinct by (ranging keywords present, number of entries, verdict pattern)."
}
func (c14) Assumptions() []string {
	return []string{"only the receiver tree and the instance are snapshotted; documents handed out by a Loader belong to the loader (Resolve records $schema in them)", "ApplyDefaults is excluded (it mutates by contract)"}
}

var rangedKW = []string{"properties", "patternProperties", "dependentRequired", "dependentSchemas", "dependencies"}

func rangedProfile(doc any) (string, bool) {
	var parts []string
	multi := false
	var walk func(v any)
	walk = func(v any) {
		switch x := v.(type) {
		case map[string]any:
			for _, k := range rangedKW {
				if m, ok := x[k].(map[string]any); ok && len(m) >= 2 {
					multi = true
					parts = append(parts, fmt.Sprintf("%s%d", k, len(m)))
				}
			}
			for _, e := range x {
				walk(e)
			}
		case []any:
			for _, e := range x {
				walk(e)
			}
		}
	}
	walk(doc)
	sortStringsInPlace(parts)
	if len(parts) > 4 {
		parts = parts[:4]
	}
	return strings.Join(parts, ","), multi
}

func (c14) Run(c *fw.Case) {
	if c.Idx%6 == 5 {
		failedCalls(c) // call history: failed calls before the case must leave nothing behind
	}
	r := c.R
	if c.Idx%9 == 8 {
		c14{}.loaderHistory(c)
		return
	}
	if c.Idx%40 == 13 {
		c14{}.numberHistory(c)
		return
	}
	if c.Idx%40 == 27 {
		c14{}.mirroredDocument(c)
		return
	}
	var s *jsonschema.Schema
	var docText string
	var dynInsts []any
	if c.Idx%5 == 4 {
		// a forked dynamic-scope topology: sibling properties reach one $dynamicRef under different dynamic scopes,
		// so an order-dependent (map iteration) evaluation would change verdicts between repetitions
		var u *gen.DynUniverse
		for k := 0; k < 20; k++ {
			u = gen.NewDynUniverse(r)
			if len(u.Docs) == 0 && len(u.Routes) == 2 {
				break
			}
		}
		if len(u.Docs) > 0 {
			return
		}
		docText = u.Root
		var err error
		var ok bool
		s, err, ok = unmarshalSchema(c, []byte(docText))
		if !ok || err != nil {
			return
		}
		s.ID = u.BaseURI // the topology was written for this base
		for _, m1 := range u.Markers {
			for _, m2 := range u.Markers {
				dynInsts = append(dynInsts, u.Wrap(m1, m2))
			}
		}
		r.Shuffle(len(dynInsts), func(i, j int) { dynInsts[i], dynInsts[j] = dynInsts[j], dynInsts[i] })
		if len(dynInsts) > 8 {
			dynInsts = dynInsts[:8]
		}
	} else if c.Idx%7 == 6 {
		// uniqueItems on long, mostly unique arrays with hash-colliding unequal items: every Validate call hashes under a fresh
		// seed, so a verdict that depends on the order inside a run of equal hashes changes between repetitions / processes
		var doc any = map[string]any{"uniqueItems": true}
		wrapI := func(v any) any { return v }
		switch r.IntN(3) {
		case 0:
			doc = map[string]any{"properties": map[string]any{"o": doc}}
			wrapI = func(v any) any { return map[string]any{"o": v} }
		case 1:
			doc = map[string]any{"items": doc}
			wrapI = func(v any) any { return []any{v, []any{}} }
		}
		docText = gen.Text(doc)
		var err error
		var ok bool
		s, err, ok = unmarshalSchema(c, []byte(docText))
		if !ok || err != nil {
			return
		}
		for k := 0; k < 6; k++ {
			dynInsts = append(dynInsts, wrapI(longUniqueModel(r)))
		}
	} else if c.Idx%5 == 3 {
		// overlapping patternProperties: several patterns match the same name, each with its own small constraint; the
		// history sends the SAME name with different values (rejected by one pattern, by the other, by both, by none),
		// so a verdict that depends on earlier calls or on map iteration order becomes visible
		type pp struct {
			pats  []string
			names []string
		}
		group := gen.Pick(r, []pp{{[]string{"^a\\.b$", "^a[.]b$", "^a\\x2eb$", "a.b"}, []string{"a.b"}}, {[]string{"^ab$", "^(ab)$", "^a(b)$", "^[a]b$"}, []string{"ab"}}, {[]string{"^a", "b$", "^.{2}$", "a|b"}, []string{"ab"}}, {[]string{"^[ab]+$", "^a", "a|b"}, []string{"a", "ab", "aa"}}, {[]string{"[0-9]", "^.{2}$", "0$"}, []string{"10", "00"}}, {[]string{"é", "^.{2}$", "^é"}, []string{"éa", "éé"}}})
		subs := []map[string]any{{"type": "integer"}, {"maximum": json.Number("10")}, {"minimum": json.Number("0")}, {"multipleOf": json.Number("2")}, {"type": "number"}, {"exclusiveMaximum": json.Number("20")}, {"enum": []any{json.Number("5"), json.Number("20"), "x"}}, {"not": map[string]any{"const": json.Number("5")}}}
		pats := map[string]any{}
		for _, i := range r.Perm(len(group.pats))[:2+r.IntN(len(group.pats)-1)] {
			pats[group.pats[i]] = gen.Pick(r, subs)
		}
		inner := map[string]any{"patternProperties": pats}
		if r.IntN(3) == 0 {
			inner["additionalProperties"] = false
		}
		var doc any = inner
		wrapI := func(v any) any { return v }
		switch r.IntN(3) {
		case 0:
			doc = map[string]any{"properties": map[string]any{"o": inner}}
			wrapI = func(v any) any { return map[string]any{"o": v} }
		case 1:
			doc = map[string]any{"items": inner}
			wrapI = func(v any) any { return []any{v} }
		}
		docText = gen.Text(doc)
		var err error
		var ok bool
		s, err, ok = unmarshalSchema(c, []byte(docText))
		if !ok || err != nil {
			return
		}
		vals := []any{json.Number("20.5"), json.Number("20"), json.Number("5.5"), json.Number("5"), json.Number("-1"), "x", json.Number("12"), json.Number("-3"), json.Number("4"), json.Number("10")}
		for k := 0; k < 8; k++ {
			o := map[string]any{gen.Pick(r, group.names): gen.Pick(r, vals)}
			if r.IntN(4) == 0 {
				o[gen.Pick(r, group.names)] = gen.Pick(r, vals)
			}
			dynInsts = append(dynInsts, wrapI(o))
		}
	} else if c.Idx%4 == 3 {
		s = gen.SchemaStruct(r, &gen.StructOpts{Valid: true, MaxDepth: 3, NoRefs: true, PropOrder: true})
		data, err, ok := marshalSchema(c, s, "generated Schema value")
		if !ok || err != nil {
			return
		}
		docText = string(data)
	} else {
		draft := gen.D2020
		if c.Idx%4 == 2 {
			draft = gen.D7
		}
		doc := gen.Schema(r, gen.SchemaOpts{Draft: draft, MaxDepth: 3, Refs: r.IntN(2) == 0, Uneval: true, Focus: "object", Names: c14Names(c)})
		if m, ok := doc.(map[string]any); ok && draft == gen.D7 {
			m["$schema"] = gen.Schema7URI
		}
		docText = gen.Text(doc)
		var err error
		var ok bool
		s, err, ok = unmarshalSchema(c, []byte(docText))
		if !ok || err != nil {
			return
		}
	}
	doc := gen.Parse(docText)
	wit := func(extra map[string]any) map[string]any {
		w := map[string]any{"schema": json.RawMessage(docText)}
		for k, v := range extra {
			w[k] = v
		}
		return w
	}
	snap0 := snap.Of(s)
	checkSchema := func(phase string) bool {
		if now := snap.Of(s); now != snap0 {
			c.Violation("the caller's Schema tree was modified by "+phase, wit(map[string]any{"phase": phase}))
			return false
		}
		return true
	}
	var rss []*jsonschema.Resolved
	for k := 0; k < 3; k++ {
		rs, err, ok := resolveSchema(c, s, docText)
		if !ok {
			return
		}
		if err != nil {
			c.Count("unresolvable", 1)
			c.Digest("unresolvable")
			if !checkSchema("a failing Resolve") {
				return
			}
			return
		}
		rss = append(rss, rs)
		if !checkSchema(fmt.Sprintf("Resolve #%d", k+1)) {
			return
		}
	}
	insts := gen.Instances(r, doc, 6, false, c14Names(c)...)
	if dynInsts != nil {
		insts = dynInsts
	}
	pattern := ""
	for i, im := range insts {
		var inst any
		if i%2 == 0 || dynInsts != nil {
			inst = gen.Canonical(gen.Text(im))
		} else {
			inst = gen.Repr(r, im, gen.ReprOpts{}, nil)
		}
		desc := gen.Describe(inst)
		isnap := snap.Of(inst)
		var first bool
		for k := 0; k < 7; k++ {
			rs := rss[0]
			if k == 5 {
				rs = rss[1]
			} else if k == 6 {
				rs = rss[2]
			}
			v, ok := validate(c, rs, docText, inst, desc)
			if !ok {
				return
			}
			c.Eval(1)
			if k == 0 {
				first = v
			} else if v != first {
				c.Violation(fmt.Sprintf("repeated Validate calls disagree (call 1 valid=%v, call %d valid=%v)", first, k+1, v), wit(map[string]any{"instance": desc}))
				return
			}
		}
		if snap.Of(inst) != isnap {
			c.Violation("Validate modified the instance", wit(map[string]any{"instance_before": desc, "instance_after": gen.Describe(inst)}))
			return
		}
		if !checkSchema("Validate") {
			return
		}
		if first {
			pattern += "1"
		} else {
			pattern += "0"
		}
	}
	c.Digest(pattern)
	var m0 []byte
	for k := 0; k < 3; k++ {
		data, err, ok := marshalSchema(c, s, docText)
		if !ok {
			return
		}
		if err != nil {
			c.Digest("marshal-error")
			break
		}
		if k == 0 {
			m0 = data
		} else if !bytes.Equal(m0, data) {
			c.Violation("repeated Marshal calls produce different bytes", wit(map[string]any{"first": string(m0), "other": string(data)}))
			return
		}
		if !checkSchema("Marshal") {
			return
		}
	}
	sum := sha256.Sum256(m0)
	c.Digest(hex.EncodeToString(sum[:]))
	// resolve again; old and new Resolved agree
	rsNew, err, ok := resolveSchema(c, s, docText)
	if !ok {
		return
	}
	if err != nil {
		c.Violation("the same schema resolved three times and then failed to resolve: "+err.Error(), wit(nil))
		return
	}
	for i, im := range insts {
		inst := gen.Canonical(gen.Text(im))
		v1, ok1 := validate(c, rss[0], docText, inst, gen.Text(im))
		v2, ok2 := validate(c, rsNew, docText, inst, gen.Text(im))
		if !ok1 || !ok2 {
			return
		}
		c.Eval(1)
		if v1 != v2 || (i%2 == 0 && (v1 != (pattern[i] == '1'))) {
			c.Violation("an old and a new Resolved of the same schema disagree", wit(map[string]any{"instance": json.RawMessage(gen.Text(im)), "old": v1, "new": v2}))
			return
		}
	}
	// history independence: a brand-new Resolved used for ONE call must give the verdict the long-lived one gave
	// (state that leaks between calls through the Resolved shows up here)
	for i, im := range insts {
		if i%2 != 0 && dynInsts == nil {
			continue // the history verdict of odd positions was taken on a non-canonical representation of the same value
		}
		fresh, err, ok := resolveSchema(c, s, docText)
		if !ok || err != nil {
			return
		}
		inst := gen.Canonical(gen.Text(im))
		v, ok := validate(c, fresh, docText, inst, gen.Text(im))
		if !ok {
			return
		}
		c.Eval(1)
		if v != (pattern[i] == '1') {
			c.Violation(fmt.Sprintf("a fresh Resolved gives valid=%v where the long-lived Resolved gave %v after a history of calls", v, pattern[i] == '1'),
				wit(map[string]any{"instance": json.RawMessage(gen.Text(im)), "history_position": i, "history_instances": func() []json.RawMessage {
					var out []json.RawMessage
					for _, x := range insts {
						out = append(out, json.RawMessage(gen.Text(x)))
					}
					return out
				}()}))
			return
		}
	}
	if !checkSchema("the final Resolve/Validate") {
		return
	}
	if prof, multi := rangedProfile(doc); multi && strings.Contains(pattern, "0") {
		c.Nontrivial(prof + "|" + pattern)
	}
	if c.Idx%2000 == 0 {
		c.Sample(map[string]any{"schema": json.RawMessage(docText), "verdict_pattern": pattern})
	}
}

// loaderHistory: Resolve is a function of (root, options, documents), not of earlier Resolve calls. A CACHING Loader hands
// the same *Schema object for a URI to every call; roots of different drafts (draft-07, 2020-12, none, unsupported) that
// reach that document are resolved one after the other, in a seeded order, some of them twice. Every outcome (error or the
// verdict vector over the instances) must equal the outcome of the same root resolved alone with a fresh Loader and a fresh
// decoding of the document; the cached document must be unchanged afterwards (own snapshot).
func (c14) loaderHistory(c *fw.Case) {
	r := c.R
	draft := gen.Draft(r.IntN(2))
	docModel := gen.Schema(r, gen.SchemaOpts{Draft: draft, MaxDepth: 2, Refs: true, Names: gen.Names[:4]})
	dm, ok := docModel.(map[string]any)
	if !ok {
		return
	}
	delete(dm, "$schema") // the document inherits the draft of whoever refers to it
	if r.IntN(3) == 0 {
		dm["$schema"] = gen.Pick(r, []string{gen.Schema7URI, gen.Schema2020URI})
	}
	docText := gen.Text(dm)
	defsKey := "$defs"
	if draft == gen.D7 {
		defsKey = "definitions"
	}
	roots := []string{
		`{"$schema":"` + gen.Schema7URI + `","$ref":"http://h/doc.json"}`,
		`{"$ref":"http://h/doc.json"}`,
		`{"$schema":"` + gen.Schema2020URI + `","allOf":[{"$ref":"doc.json"}]}`,
		`{"$schema":"` + gen.Schema7URIs + `","properties":{"a":{"$ref":"doc.json#/` + defsKey + `/d0"}}}`,
		`{"properties":{"a":{"$ref":"doc.json#/` + defsKey + `/d0"}},"$id":"http://h/root.json"}`,
	}
	var insts []any
	for _, im := range gen.Instances(r, docModel, 6, false, gen.Names[:4]...) {
		insts = append(insts, gen.Canonical(gen.Text(im)), map[string]any{"a": gen.Canonical(gen.Text(im))})
	}
	outcome := func(rootText string, loader jsonschema.Loader, what string) (string, bool) {
		var root jsonschema.Schema
		if err := json.Unmarshal([]byte(rootText), &root); err != nil {
			return "", false
		}
		var rs *jsonschema.Resolved
		var err error
		ro := &jsonschema.ResolveOptions{BaseURI: "http://h/root.json", Loader: loader}
		if what == "caching" && (strings.Contains(rootText, "allOf") || strings.HasPrefix(rootText, `{"$ref"`)) {
			ro.Loader = nil // (the remote reference then fails to load: an error, and still no write to the options)
		}
		hadLoader := ro.Loader != nil
		if !c.CallChecked("Resolve", map[string]any{"root": json.RawMessage(rootText), "document": json.RawMessage(docText), "loader": what, "loader_set": hadLoader}, func() {
			rs, err = root.Resolve(ro)
		}) {
			return "", false
		}
		if (ro.Loader != nil) != hadLoader || ro.BaseURI != "http://h/root.json" || ro.ValidateDefaults {
			c.Violation("Resolve modified the ResolveOptions value it was given", map[string]any{"root": json.RawMessage(rootText), "loader_was_set": hadLoader, "loader_set_now": ro.Loader != nil, "base_uri_now": ro.BaseURI})
			return "", false
		}
		if !hadLoader {
			ro.Loader = loader
			rs, err = root.Resolve(ro) // the outcome compared below is the one with the Loader
		}
		c.Eval(1)
		if err != nil {
			return "resolve-error", true
		}
		var sb strings.Builder
		for _, inst := range insts {
			v, ok := validate(c, rs, rootText, inst, "history instance")
			if !ok {
				return "", false
			}
			if v {
				sb.WriteByte('1')
			} else {
				sb.WriteByte('0')
			}
		}
		return sb.String(), true
	}
	fresh := func(u *url.URL) (*jsonschema.Schema, error) {
		var d jsonschema.Schema
		if err := json.Unmarshal([]byte(docText), &d); err != nil {
			return nil, err
		}
		return &d, nil
	}
	want := make([]string, len(roots))
	for i, rt := range roots {
		o, ok := outcome(rt, fresh, "fresh")
		if !ok {
			return
		}
		want[i] = o
	}
	var cached jsonschema.Schema
	if err := json.Unmarshal([]byte(docText), &cached); err != nil {
		return
	}
	before := snap.Of(&cached)
	caching := func(u *url.URL) (*jsonschema.Schema, error) { return &cached, nil }
	order := r.Perm(len(roots))
	order = append(order, r.Perm(len(roots))[:2]...)
	var hist []string
	for _, i := range order {
		got, ok := outcome(roots[i], caching, "caching")
		if !ok {
			return
		}
		hist = append(hist, fmt.Sprint(i))
		c.Digest(got)
		if got != want[i] {
			c.Violation(fmt.Sprintf("Resolve depends on earlier Resolve calls that used the same Loader document: root %d after the history %v gives %q, alone it gives %q", i, hist, got, want[i]),
				map[string]any{"roots": roots, "document": json.RawMessage(docText), "history": hist, "root": json.RawMessage(roots[i])})
			return
		}
	}
	if after := snap.Of(&cached); after != before {
		c.Violation("Resolve modified a document handed out by the Loader (a caching Loader serves it to later calls)", map[string]any{"document": json.RawMessage(docText), "before": before, "after": after})
		return
	}
	distinct := map[string]bool{}
	for _, w := range want {
		distinct[w] = true
	}
	if len(distinct) >= 2 {
		c.Nontrivial(fmt.Sprintf("loader-history|%d outcomes|draft%d", len(distinct), draft))
	}
}

// c14Names: every third case uses names that differ only by case (ASCII and the Unicode folds K / KELVIN SIGN, s / LONG S):
// an ordering that folds case has ties exactly there, and a tie broken by map iteration order shows as a result that
// changes between repetitions.
func c14Names(c *fw.Case) []string {
	if c.Idx%3 == 1 {
		return []string{"a", "A", "b", "B", "k", "\u212a", "s", "\u017f"}
	}
	return gen.Names[:5]
}

// numberHistory: numbers at the edge of the float64 range, written with an exponent, under a fractional multipleOf (the
// quotient leaves the float64 range) - and the SAME literal under other schemas before and afterwards. What a call computes
// from an instance belongs to that call: the verdicts of the other schemas are fixed by the literal alone.
func (c14) numberHistory(c *fw.Case) {
	r := c.R
	lit := gen.Pick(r, []string{"1e308", "1.5e308", "9e307", "1E308", "17e307", "1.7e+308", "-1e308", "-9E307"})
	neg := lit[0] == '-'
	mult := gen.Pick(r, []string{"0.5", "0.3", "0.7", "0.1", "0.25", "1e-10"})
	fixed := []struct {
		text string
		want bool
	}{
		{`{"type":"integer"}`, true},
		{`{"exclusiveMaximum":1.7976931348623157e308}`, true},
		{`{"exclusiveMinimum":-1.7976931348623157e308}`, true},
		{`{"minimum":1e307}`, !neg},
		{`{"maximum":-1e307}`, neg},
	}
	var fixedRS []*jsonschema.Resolved
	for _, f := range fixed {
		rs, err, ok := compileDoc(c, f.text, nil)
		if !ok || err != nil {
			return
		}
		fixedRS = append(fixedRS, rs)
	}
	mtext := `{"multipleOf":` + mult + `}`
	mrs, err, ok := compileDoc(c, mtext, nil)
	if !ok || err != nil {
		return
	}
	checkFixed := func(phase string) bool {
		for i, f := range fixed {
			got, ok := validate(c, fixedRS[i], f.text, json.Number(lit), "json.Number("+lit+")")
			if !ok {
				return false
			}
			c.Eval(1)
			if got != f.want {
				c.Violation(fmt.Sprintf("%s: %s on the number %s is valid=%v, want %v", phase, f.text, lit, got, f.want),
					map[string]any{"schema": json.RawMessage(f.text), "instance": "json.Number(" + lit + ")", "between": mtext, "phase": phase})
				return false
			}
		}
		return true
	}
	if !checkFixed("before") {
		return
	}
	var first bool
	for k := 0; k < 3; k++ {
		got, ok := validate(c, mrs, mtext, json.Number(lit), "json.Number("+lit+")")
		if !ok {
			return
		}
		c.Eval(1)
		if k == 0 {
			first = got
		} else if got != first {
			c.Violation(fmt.Sprintf("repeated Validate calls disagree (call 1 valid=%v, call %d valid=%v)", first, k+1, got), map[string]any{"schema": json.RawMessage(mtext), "instance": "json.Number(" + lit + ")"})
			return
		}
	}
	if !checkFixed("after " + mtext + " judged the same literal") {
		return
	}
	c.Nontrivial("numberHistory|" + lit + "|" + mult)
	c.Digest(fmt.Sprint(first))
}

// mirroredDocument: a Loader with a content-addressed cache hands out ONE *Schema for a document that is published under
// two URIs (a mirror). The document has no $id and refers to a neighbour by a relative reference, and the neighbours of
// the two locations differ. Whatever the package makes of that, it must make the same of it on every Resolve call and in
// every process: the verdict vector is compared across eight Resolve calls here and, through the digest, across processes.
func (c14) mirroredDocument(c *fw.Case) {
	r := c.R
	types := gen.TypeNames
	t1 := gen.Pick(r, types)
	t2 := gen.Pick(r, types)
	for t2 == t1 {
		t2 = gen.Pick(r, types)
	}
	n := 2 + r.IntN(4) // mirrors
	shared := &jsonschema.Schema{}
	if err := json.Unmarshal([]byte(`{"$ref":"b.json"}`), shared); err != nil {
		return
	}
	docs := map[string]string{}
	props := map[string]any{}
	for i := 0; i < n; i++ {
		t := t1
		if i%2 == 1 {
			t = t2
		}
		docs[fmt.Sprintf("http://x.test/d%d/b.json", i)] = `{"type":"` + t + `"}`
		props[fmt.Sprintf("p%d", i)] = map[string]any{"$ref": fmt.Sprintf("http://x.test/d%d/a.json", i)}
	}
	rootText := gen.Text(map[string]any{"properties": props})
	loader := func(u *url.URL) (*jsonschema.Schema, error) {
		if strings.HasSuffix(u.Path, "/a.json") {
			return shared, nil // the same object, whichever mirror is asked for
		}
		text, ok := docs[u.String()]
		if !ok {
			return nil, fmt.Errorf("no such document %s", u)
		}
		var s jsonschema.Schema
		if err := json.Unmarshal([]byte(text), &s); err != nil {
			return nil, err
		}
		return &s, nil
	}
	var insts []string
	for i := 0; i < n; i++ {
		for _, v := range []string{`"s"`, `1`, `null`, `[]`, `{}`, `true`, `1.5`} {
			insts = append(insts, fmt.Sprintf(`{"p%d":%s}`, i, v))
		}
	}
	var first string
	for k := 0; k < 8; k++ {
		var root jsonschema.Schema
		if err := json.Unmarshal([]byte(rootText), &root); err != nil {
			return
		}
		var rs *jsonschema.Resolved
		var err error
		if !c.CallChecked("Resolve", map[string]any{"schema": json.RawMessage(rootText), "note": "mirrored Loader document"}, func() {
			rs, err = root.Resolve(&jsonschema.ResolveOptions{BaseURI: "http://x.test/root.json", Loader: loader})
		}) {
			return
		}
		c.Eval(1)
		out := "resolve-error"
		if err == nil {
			var sb strings.Builder
			for _, it := range insts {
				v, ok := validate(c, rs, rootText, gen.Canonical(it), it)
				if !ok {
					return
				}
				if v {
					sb.WriteByte('1')
				} else {
					sb.WriteByte('0')
				}
			}
			out = sb.String()
		}
		if k == 0 {
			first = out
		} else if out != first {
			c.Violation(fmt.Sprintf("Resolve call %d of the same root with the same Loader gives other verdicts than call 1 (%s vs %s)", k+1, out, first),
				map[string]any{"schema": json.RawMessage(rootText), "loader": "one *Schema {\"$ref\":\"b.json\"} served for every .../a.json; .../dK/b.json differ", "documents": docs})
			return
		}
	}
	c.Digest(first)
	c.Nontrivial(fmt.Sprintf("mirrored|%d", n))
}

package props

import (
	"encoding/json"
	"fmt"
	"math/big"
	"reflect"

	"github.com/google/jsonschema-go/jsonschema"

	"verif/internal/fw"
	"verif/internal/gen"
	"verif/internal/typecorpus"
)

// C04: the inferred schema accepts the JSON encoding of every value of the type.
type c04 struct{}

func init() { register(c04{}) }

func (c04) ID() string { return "C04" }
func (c04) Cases(t fw.Tier) int {
	return tierN(t, 50000, 1500000)
}
func (c04) Rule() string {
	return "each case takes a Go type T of the plain-data domain - the committed corpus (named structs, embedded structs by value / non-nil pointer, unexported embedded types, same-name shadowing, named slices/maps/pointers, repeated types, standard-library marshalers, " +
		"user marshalers with a TypeSchemas entry) or a type built at run time with reflect.StructOf/SliceOf/ArrayOf/MapOf/PointerTo over all documented kinds with random json tags (name, '-', '-,', omitempty, omitzero, combinations) and embedded corpus structs - " +
		"and 5 values per type (zero, all-min with nil pointers and empty containers, all-max with long containers, two random), marshals each through an ADDRESSABLE value with encoding/json, decodes the bytes the canonical way and validates them " +
		"against Resolve(ForType(T)). Oracle: the second system itself - whatever encoding/json emits must be accepted. Non-trivial: T nests >= 2 kinds or uses a tag option / embedding; distinct by (structural signature of T with names erased, value class)."
}
func (c04) Assumptions() []string {
	return []string{"outside the domain and never generated: nil maps, []byte, ',string', user MarshalJSON types without TypeSchemas, nil embedded pointers, pointer-receiver marshalers held by value in non-addressable positions, NaN/Inf, time.Time years outside 0..9999",
		"pinned known findings (not generated): JSON-name collisions between differently named fields and Go-shadowed fields with another JSON name (KF-C04-1), typeless TypeSchemas entries behind a pointer (KF-C04-2), big.Int (KF-C04-3); tag names encoding/json rejects are not generated"}
}

func customOpts() *jsonschema.ForOptions {
	return &jsonschema.ForOptions{TypeSchemas: map[reflect.Type]*jsonschema.Schema{
		// (a list built with append: spare capacity behind it, as after decoding or growing a slice)
		reflect.TypeFor[typecorpus.Custom](): {Types: append(make([]string, 0, 4), "string", "integer")},
	}}
}

// pickType returns the case's type, its ForOptions and a label.
func pickType(c *fw.Case, noStd bool) (reflect.Type, *jsonschema.ForOptions, string) {
	r := c.R
	switch k := c.Idx % 8; {
	case k == 0:
		return gen.Pick(r, typecorpus.PlainData), nil, "corpus"
	case k == 1 && !noStd:
		if r.IntN(3) == 0 {
			return gen.Pick(r, []reflect.Type{reflect.TypeFor[typecorpus.WithCustom](), reflect.TypeFor[typecorpus.WithCustomPtr]()}), customOpts(), "corpus-custom"
		}
		if r.IntN(4) == 0 {
			// the caller's entry for a type that also has a BUILT-IN translation wins (big.Int: number, not "string")
			o := customOpts()
			o.TypeSchemas[reflect.TypeFor[big.Int]()] = &jsonschema.Schema{Type: "integer"}
			return gen.Pick(r, []reflect.Type{reflect.TypeFor[typecorpus.WithBigInt](), reflect.TypeFor[[]typecorpus.WithBigInt](), reflect.TypeFor[map[string]*big.Int]()}), o, "corpus-builtin-overridden"
		}
		if r.IntN(4) == 0 {
			// kinds For cannot translate, with their own marshalers and TypeSchemas entries; IgnoreInvalidTypes on or off
			o := customOpts()
			o.TypeSchemas[reflect.TypeFor[typecorpus.IDSet]()] = &jsonschema.Schema{Type: "array", Items: &jsonschema.Schema{Type: "integer"}}
			o.TypeSchemas[reflect.TypeFor[typecorpus.Point]()] = &jsonschema.Schema{Type: "array", MinItems: jsonschema.Ptr(2), MaxItems: jsonschema.Ptr(2)}
			o.IgnoreInvalidTypes = r.IntN(2) == 0
			return gen.Pick(r, []reflect.Type{reflect.TypeFor[typecorpus.WithInvalidKinds](), reflect.TypeFor[[]typecorpus.WithInvalidKinds](), reflect.TypeFor[typecorpus.IDSet]()}), o, "corpus-invalid-kinds-with-entries"
		}
		return gen.Pick(r, typecorpus.WithStd), nil, "corpus-std"
	default:
		return gen.SafeRandType(r, gen.TypeOpts{MaxDepth: 2 + r.IntN(3), NoStd: noStd}), nil, "reflect"
	}
}

func inferAndResolve(c *fw.Case, t reflect.Type, opts *jsonschema.ForOptions) (*jsonschema.Schema, *jsonschema.Resolved, bool) {
	var s *jsonschema.Schema
	var err error
	if !c.CallChecked("ForType", t.String(), func() { s, err = jsonschema.ForType(t, opts) }) {
		return nil, nil, false
	}
	if err != nil {
		c.Violation("ForType fails for a type of the plain-data domain: "+err.Error(), map[string]any{"type": t.String()})
		return nil, nil, false
	}
	var rs *jsonschema.Resolved
	if !c.CallChecked("Resolve", t.String(), func() { rs, err = s.Resolve(nil) }) {
		return nil, nil, false
	}
	if err != nil {
		c.Violation("Resolve rejects the schema inferred for "+t.String()+": "+err.Error(), map[string]any{"type": t.String()})
		return nil, nil, false
	}
	return s, rs, true
}

func (c04) Run(c *fw.Case) {
	r := c.R
	t, opts, label := pickType(c, false)
	if c.Idx%4 == 1 {
		decoyInfer(c, t) // call history: the same type inferred with other options first
	}
	s, rs, ok := inferAndResolve(c, t, opts)
	if !ok {
		return
	}
	schemaJSON, _ := json.Marshal(s)
	sig := gen.TypeSig(t, 0)
	for _, class := range []gen.ValueClass{gen.VZero, gen.VMin, gen.VMax, gen.VRandom, gen.VRandom} {
		p := reflect.New(t) // addressable
		gen.Fill(r, p.Elem(), class, 0)
		data, err := json.Marshal(p.Interface())
		if err != nil {
			c.Count("unmarshalable_values", 1)
			continue
		}
		var inst any
		if err := json.Unmarshal(data, &inst); err != nil {
			continue
		}
		valid, ok := validate(c, rs, string(schemaJSON), inst, string(data))
		if !ok {
			return
		}
		c.Eval(1)
		if !valid {
			verr := rs.Validate(inst)
			c.Violation("the schema inferred for "+t.String()+" rejects the JSON that encoding/json produces for a value of the type",
				map[string]any{"type": t.String(), "value_class": class.String(), "json": json.RawMessage(data), "inferred_schema": json.RawMessage(schemaJSON), "validation_error": fmt.Sprint(verr)})
			return
		}
		if len(sig) > 8 {
			c.Nontrivial(sig + "|" + class.String())
		}
	}
	c.Count("types:"+label, 1)
	if c.Idx%1500 == 0 {
		c.Sample(map[string]any{"type": t.String(), "inferred_schema": json.RawMessage(schemaJSON)})
	}
}

// Pinned known findings.
func (c04) RunKnown(id string) (bool, string, error) {
	check := func(v any, opts *jsonschema.ForOptions) (bool, string, error) {
		t := reflect.TypeOf(v).Elem()
		s, err := jsonschema.ForType(t, opts)
		if err != nil {
			return false, "", err
		}
		rs, err := s.Resolve(nil)
		if err != nil {
			return false, "", err
		}
		data, err := json.Marshal(v)
		if err != nil {
			return false, "", err
		}
		var inst any
		json.Unmarshal(data, &inst)
		if verr := rs.Validate(inst); verr != nil {
			return true, fmt.Sprintf("%s: %s rejected", t, data), nil
		}
		return false, "", nil
	}
	switch id {
	case "KF-C04-1":
		type A struct {
			X int `json:"x"`
		}
		type T struct {
			Z string `json:"x"`
			A
		}
		return check(&T{Z: "z", A: A{X: 1}}, nil)
	case "KF-C04-2":
		type T struct {
			C *typecorpus.Custom `json:"c"`
		}
		opts := &jsonschema.ForOptions{TypeSchemas: map[reflect.Type]*jsonschema.Schema{reflect.TypeFor[typecorpus.Custom](): {Enum: []any{7.0}}}}
		return check(&T{C: &typecorpus.Custom{V: 2}}, opts)
	case "KF-C04-3":
		type T struct {
			I *big.Int `json:"i"`
		}
		return check(&T{I: big.NewInt(12)}, nil)
	}
	return false, "", fmt.Errorf("unknown known-finding id %s", id)
}

package props

import (
	"encoding/json"
	"errors"
	"fmt"
	"sort"
	"strings"

	"github.com/google/jsonschema-go/jsonschema"

	"verif/internal/fw"
	"verif/internal/gen"
	"verif/internal/refmodel"
)

// Keyword groups for the pairwise interaction table.
var kwGroup = map[string]string{}

func init() {
	for g, ks := range map[string][]string{
		"object":  {"properties", "patternProperties", "additionalProperties", "propertyNames", "required", "minProperties", "maxProperties", "dependentRequired", "dependentSchemas", "unevaluatedProperties", "dependencies"},
		"array":   {"prefixItems", "items", "contains", "minContains", "maxContains", "minItems", "maxItems", "uniqueItems", "unevaluatedItems", "additionalItems"},
		"numeric": {"minimum", "maximum", "exclusiveMinimum", "exclusiveMaximum", "multipleOf"},
		"string":  {"minLength", "maxLength", "pattern"},
		"generic": {"type", "enum", "const"},
		"logic":   {"allOf", "anyOf", "oneOf", "not", "if", "then", "else", "$ref", "$dynamicRef"},
	} {
		for _, k := range ks {
			kwGroup[k] = g
		}
	}
}

// traceStats turns the model's trace of one validation into the non-triviality key and counters.
type traceStats struct {
	events []refmodel.Event
}

func (t *traceStats) hook() func(refmodel.Event) {
	return func(e refmodel.Event) {
		if len(t.events) < 4000 { // a bounded prefix is enough for the statistics
			t.events = append(t.events, e)
		}
	}
}

func (t *traceStats) reset() { t.events = t.events[:0] }

// summarize records counters and returns (key, nontrivial).
func (t *traceStats) summarize(c *fw.Case, valid bool) (string, bool) {
	kinds := map[string]bool{}
	set := map[string]bool{}
	type loc struct{ s, i string }
	type kwo struct {
		kw string
		ok bool
	}
	byLoc := map[loc]map[kwo]bool{}
	for _, e := range t.events {
		tag := e.Keyword + ":ok"
		if !e.OK {
			tag = e.Keyword + ":fail"
		}
		if !set[tag] {
			set[tag] = true
			if e.OK {
				c.Count("passed:"+e.Keyword, 1)
			} else {
				c.Count("decided:"+e.Keyword, 1)
			}
		}
		kinds[e.Keyword] = true
		l := loc{e.SchemaLoc, e.InstLoc}
		if byLoc[l] == nil {
			byLoc[l] = map[kwo]bool{}
		}
		byLoc[l][kwo{e.Keyword, e.OK}] = true
	}
	pairs := map[string]bool{}
	for _, evs := range byLoc {
		if len(evs) < 2 {
			continue
		}
		for e2 := range evs {
			if e2.ok {
				continue
			}
			for e1 := range evs {
				if e1.kw != e2.kw && kwGroup[e1.kw] != "" && kwGroup[e1.kw] == kwGroup[e2.kw] {
					pairs["pair:"+e1.kw+"+"+e2.kw] = true
				}
			}
		}
	}
	for p := range pairs {
		c.Count(p, 1)
	}
	tags := make([]string, 0, len(set))
	for k := range set {
		tags = append(tags, k)
	}
	sort.Strings(tags)
	return strings.Join(tags, ",") + fmt.Sprintf("|%v", valid), len(kinds) >= 2
}

// modelCase is one (universe, instances) comparison between the library and the reference model.
type modelCase struct {
	priorRoots []string // roots resolved earlier through the same (then caching) Loader
	draft      refmodel.Draft
	rootText   string
	baseURI    string
	docs       map[string]string // loader documents (JSON text) by absolute URI
	loadErr    map[string]bool
	noLoader   bool
}

func (mc *modelCase) witness(extra map[string]any) map[string]any {
	w := map[string]any{"schema": json.RawMessage(mc.rootText), "draft": map[refmodel.Draft]string{refmodel.D2020: "2020-12", refmodel.D7: "draft-07"}[mc.draft]}
	if mc.baseURI != "" {
		w["base_uri"] = mc.baseURI
	}
	if len(mc.docs) > 0 {
		d := map[string]any{}
		for k, v := range mc.docs {
			d[k] = json.RawMessage(v)
		}
		w["loader_documents"] = d
	}
	if len(mc.loadErr) > 0 {
		w["loader_faults"] = sortedKeys(mc.loadErr)
	}
	if mc.noLoader {
		w["no_loader"] = true
	}
	for k, v := range extra {
		w[k] = v
	}
	return w
}

// build constructs both sides. Returns ok=false if the case is finished (error agreement, violation, or out of domain).
func (mc *modelCase) build(c *fw.Case) (m *refmodel.Model, rs *jsonschema.Resolved, ld *mapLoader, ok bool) {
	u := &refmodel.Universe{Draft: mc.draft, BaseURI: mc.baseURI, Root: gen.Parse(mc.rootText), LoadErr: mc.loadErr, NoLoader: mc.noLoader}
	if len(mc.docs) > 0 {
		u.Docs = map[string]any{}
		for k, v := range mc.docs {
			u.Docs[k] = gen.Parse(v)
		}
	}
	m, merr := refmodel.Build(u)
	var de *refmodel.DomainError
	if errors.As(merr, &de) {
		c.Count("model_domain_refusals", 1)
		c.Count("model_domain:"+firstWords(de.Msg, 3), 1)
		return nil, nil, nil, false
	}
	opts := &jsonschema.ResolveOptions{BaseURI: mc.baseURI}
	ld = &mapLoader{docs: mc.docs, fail: mc.loadErr}
	if !mc.noLoader {
		opts.Loader = ld.load
	}
	if len(mc.priorRoots) > 0 && !mc.noLoader {
		// call history through a CACHING Loader: other roots (of another draft) were resolved before, and the Loader now
		// serves the very same document objects to the root under test
		ld.caching = true
		for _, pr := range mc.priorRoots {
			var ps jsonschema.Schema
			if json.Unmarshal([]byte(pr), &ps) == nil {
				fw.Call(func() { _, _ = ps.Resolve(opts) })
			}
		}
		ld.requests = nil
		c.Count("resolved_after_other_roots_through_a_caching_loader", 1)
	}
	rs, lerr, okc := compileDoc(c, mc.rootText, opts)
	if !okc {
		return nil, nil, nil, false
	}
	if m != nil {
		m.MaxSteps = 20000
	}
	if merr != nil { // ResolveError expected
		c.Eval(1)
		if lerr == nil {
			c.Violation("Resolve succeeded although a reference designates nothing (model: "+merr.Error()+")", mc.witness(map[string]any{"model_error": merr.Error()}))
		} else {
			c.Count("resolve_errors_agreed", 1)
		}
		return nil, nil, ld, false
	}
	if lerr != nil {
		c.Eval(1)
		c.Violation("Unmarshal/Resolve refused an in-domain schema: "+lerr.Error(), mc.witness(map[string]any{"library_error": lerr.Error()}))
		return nil, nil, ld, false
	}
	return m, rs, ld, true
}

func firstWords(s string, n int) string {
	if i := strings.Index(s, ": "); i >= 0 && strings.HasPrefix(s, "#") || strings.HasPrefix(s, "http") && i >= 0 {
		s = s[i+2:] // drop the schema location: the class of the refusal is what is counted
	}
	f := strings.Fields(s)
	if len(f) > n {
		f = f[:n]
	}
	return strings.Join(f, " ")
}

// compare validates one instance on both sides; returns the model verdict and whether it was decided.
func (mc *modelCase) compare(c *fw.Case, m *refmodel.Model, rs *jsonschema.Resolved, instModel any, ts *traceStats, what string) (valid, decided bool) {
	itext := gen.Text(instModel)
	ts.reset()
	want, err := m.Validate(gen.Parse(itext))
	if err != nil {
		c.Count("model_domain_refusals_validate", 1)
		return false, false
	}
	got, ok := validate(c, rs, mc.rootText, gen.Canonical(itext), itext)
	if !ok {
		return want, false
	}
	c.Eval(1)
	if want {
		c.Count("verdict_valid", 1)
	} else {
		c.Count("verdict_invalid", 1)
	}
	if c.Idx%7 == 0 && !mc.pythonDiffersByDesign() {
		rec := map[string]any{"schema": json.RawMessage(mc.rootText), "instance": json.RawMessage(itext), "model_valid": want, "draft": map[refmodel.Draft]string{refmodel.D2020: "2020-12", refmodel.D7: "draft-07"}[mc.draft]}
		if mc.baseURI != "" {
			rec["base_uri"] = mc.baseURI
		}
		if len(mc.docs) > 0 {
			d := map[string]any{}
			for k, v := range mc.docs {
				d[k] = json.RawMessage(v)
			}
			rec["docs"] = d
		}
		c.AuditSample(rec)
	}
	if got != want {
		c.Violation(fmt.Sprintf("%s: Validate says valid=%v, the specification (reference model) says valid=%v", what, got, want),
			mc.witness(map[string]any{"instance": json.RawMessage(itext), "library_valid": got, "model_valid": want, "py_checkable": true}))
		return want, true
	}
	if c.R.IntN(3) == 0 {
		// the same instance as a Decoder.UseNumber program sees it: numbers as json.Number, in another lexical form of the same
		// value (10e-1, 1.0, 5E-1 ...). The validity relation is about JSON VALUES, so the verdict must be the same.
		alt := gen.Respell(c.R, gen.Parse(itext))
		adesc := "json.Number form " + gen.Text(alt)
		got2, ok := validate(c, rs, mc.rootText, alt, adesc)
		if !ok {
			return want, false
		}
		c.Eval(1)
		if got2 != want {
			c.Violation(fmt.Sprintf("%s: Validate says valid=%v for the instance decoded with UseNumber, the specification (reference model) says valid=%v", what, got2, want),
				mc.witness(map[string]any{"instance": json.RawMessage(itext), "instance_as_given": adesc, "library_valid": got2, "model_valid": want}))
		}
	}
	return want, true
}

// keywordCoverage summarises the per-keyword and pairwise counters after a model-compared run and flags
// a run that never saw some asserting keyword decide a verdict (the workload, not the library, is then lacking).
func keywordCoverage(a *fw.Agg, draft7 bool) {
	var never []string
	asserting := []string{}
	for kw, g := range kwGroup {
		switch {
		case g == "logic" && (kw == "then" || kw == "else" || kw == "$dynamicRef"):
			if draft7 && kw == "$dynamicRef" {
				continue
			}
		case draft7 && (kw == "prefixItems" || kw == "minContains" || kw == "maxContains" || kw == "dependentRequired" || kw == "dependentSchemas" || kw == "unevaluatedItems" || kw == "unevaluatedProperties" || kw == "$dynamicRef"):
			continue
		case !draft7 && (kw == "additionalItems" || kw == "dependencies"):
			continue
		}
		asserting = append(asserting, kw)
	}
	sort.Strings(asserting)
	for _, kw := range asserting {
		if a.Counters["decided:"+kw] == 0 {
			never = append(never, kw)
		}
	}
	possible, seen := 0, 0
	var empty []string
	for _, k1 := range asserting {
		for _, k2 := range asserting {
			if k1 != k2 && kwGroup[k1] == kwGroup[k2] && kwGroup[k1] != "logic" {
				possible++
				if a.Counters["pair:"+k1+"+"+k2] > 0 {
					seen++
				} else if len(empty) < 40 {
					empty = append(empty, k1+"+"+k2)
				}
			}
		}
	}
	a.Extra["keywords_never_deciding"] = never
	a.Extra["same_group_keyword_pairs"] = map[string]any{"possible_ordered_pairs": possible, "observed_with_second_deciding": seen, "examples_never_observed": empty}
	if len(never) > 0 {
		a.AddInconclusive("some asserting keyword never decided a verdict in this run: " + strings.Join(never, ","))
	}
	if possible > 0 && float64(possible-seen)/float64(possible) > 0.05 {
		a.AddInconclusive(fmt.Sprintf("%d of %d same-group keyword pairs were never observed together with the second one deciding", possible-seen, possible))
	}
}

// pythonDiffersByDesign reports input classes on which the second oracle (python jsonschema) is known to deviate from the
// draft text, so that samples of them are not sent to the audit: under draft-07 python registers the plain-name anchor of a
// fragment-only $id even when it sits beside $ref, where "all other properties MUST be ignored" (the package and the
// reference model ignore it).
func (mc *modelCase) pythonDiffersByDesign() bool {
	if mc.draft != refmodel.D7 {
		return false
	}
	found := false
	var walk func(v any)
	walk = func(v any) {
		switch x := v.(type) {
		case map[string]any:
			if _, hasRef := x["$ref"]; hasRef {
				if id, ok := x["$id"].(string); ok && strings.HasPrefix(id, "#") {
					found = true
				}
			}
			for _, e := range x {
				walk(e)
			}
		case []any:
			for _, e := range x {
				walk(e)
			}
		}
	}
	walk(gen.Parse(mc.rootText))
	for _, d := range mc.docs {
		walk(gen.Parse(d))
	}
	return found
}

package props

import (
	"encoding/json"
	"fmt"
	"math/rand/v2"

	"github.com/google/jsonschema-go/jsonschema"

	"verif/internal/fw"
	"verif/internal/gen"
	"verif/internal/refmodel"
)

// C02: draft-07 schemas are validated with draft-07 semantics; unsupported $schema is refused.
type c02 struct{}

func init() { register(c02{}) }

func (c02) ID() string { return "C02" }
func (c02) Cases(t fw.Tier) int {
	return tierN(t, 40000, 1200000)
}
func (c02) Rule() string {
	return "case kinds: (a, 60%) a generated draft-07 document (either $schema spelling; definitions, dependencies in both forms, items in both forms + additionalItems, $id-as-anchor, $ref with asserting and applicator siblings that must be ignored) " +
		"x 14 instances vs. the reference model in draft-07 mode; (b, 30%) a draft-07 root that reaches a Loader-supplied draft-07 document (with or without its own $schema, either spelling) through a $ref at the root or below allOf / properties / items / anyOf (depth 0-3), directly or through one or two intermediate Loader documents that declare no $schema either, " +
		"the remote using $id-anchors, definitions, dependencies, items arrays, so that reading it under the wrong draft changes a verdict or makes Resolve fail; (c, 10%) the configuration sweep of the root's $schema: 40 unsupported values " +
		"(other drafts, missing '#', case variants, trailing slash, random strings) on always-true schemas x instances: Validate must return an error every time. " +
		"Non-trivial for (a)/(b): the 2020-12 reading of the same document gives another verdict or cannot be built (the mode switch mattered); for (c) every case. Distinct by (kind, wrapper, draft-specific keyword set, verdict)."
}
func (c02) Assumptions() []string {
	return []string{"reference model in draft-07 mode (suite-tested on the 913 official draft-07 cases)",
		"remote documents never declare a different supported draft than the root (cross-draft references are optional in the specification); keywords of the other draft are not mixed in",
		"loader documents are served under their retrieval URI; cross-document references target document roots"}
}

var unsupportedSchemas = []string{
	"http://json-schema.org/draft-04/schema#", "http://json-schema.org/draft-06/schema#", "https://json-schema.org/draft/2019-09/schema", "http://json-schema.org/draft-03/schema#",
	"http://json-schema.org/draft-07/schema", "https://json-schema.org/draft-07/schema", "http://json-schema.org/draft-07/schema##", "HTTP://json-schema.org/draft-07/schema#",
	"http://json-schema.org/Draft-07/schema#", "http://json-schema.org/draft-07/schema#/", "http://json-schema.org/draft-07/schema/", "https://json-schema.org/draft/2020-12/schema#",
	"https://json-schema.org/draft/2020-12/schema/", "http://json-schema.org/draft/2020-12/schema", "https://json-schema.org/draft/2020-12/Schema", "https://json-schema.org/draft/2020-12",
	"https://json-schema.org/draft/next/schema", "http://json-schema.org/schema#", "http://json-schema.org/schema", "draft-07", "draft7", "2020-12", "x", " ", "#", "http://example.com/my-meta-schema",
	"https://json-schema.org/draft/2020-12/schema ", " https://json-schema.org/draft/2020-12/schema", "http://json-schema.org/draft-07/schema# ", "https://json-schema.org/draft/2019-09/schema#",
	"http://json-schema.org/draft-05/schema#", "http://json-schema.org/draft-01/schema#", "http://json-schema.org/draft-02/schema#", "urn:x", "https://json-schema.org/draft/2020-12/meta/core",
	"https://json-schema.org/draft-07/schema#x", "http://json-schema.org/draft-07/hyper-schema#", "https://json-schema.org/draft/2020-12/hyper-schema", "true", "null",
}

func (p c02) Run(c *fw.Case) {
	if c.Idx%6 == 5 {
		failedCalls(c) // call history: failed calls before the case must leave nothing behind
	}
	switch k := c.Idx % 10; {
	case k < 6:
		p.local(c)
	case k < 9:
		p.remote(c)
	default:
		p.unsupported(c)
	}
}

func d7uri(c *fw.Case) string {
	if c.R.IntN(2) == 0 {
		return gen.Schema7URI
	}
	return gen.Schema7URIs
}

// modeMattered reports whether reading the same universe as 2020-12 changes the verdict (or cannot be built).
func modeMattered(u2020 *refmodel.Model, inst any, d7verdict bool) bool {
	if u2020 == nil {
		return true
	}
	v, err := u2020.Validate(inst)
	return err != nil || v != d7verdict
}

func (c02) local(c *fw.Case) {
	r := c.R
	names := gen.Names
	if c.Idx%2 == 0 {
		names = gen.Names[:4]
	}
	doc := gen.Schema(r, gen.SchemaOpts{Draft: gen.D7, MaxDepth: 2 + r.IntN(3), Refs: r.IntN(3) > 0, Names: names})
	m, ok := doc.(map[string]any)
	if !ok {
		m = map[string]any{}
		if doc == false {
			m["not"] = map[string]any{}
		}
	}
	var directed []any
	if c.Idx%7 == 3 {
		// nested dependencies: several dependencies of an object apply at once, one of them in schema form leads (through a
		// property or in place) to another object schema whose own dependencies apply too, under other names
		m, directed = nestedDependencies(r)
	}
	m["$schema"] = d7uri(c)
	baseURI := ""
	if directed == nil && r.IntN(4) == 0 {
		// a base-URI $id spelled with an empty fragment (recommended by draft-07 for root schemas), with references that depend on it
		m["$id"] = "http://example.com/schemas/root.json#"
		defsKW := "definitions"
		defs, _ := m[defsKW].(map[string]any)
		if defs == nil {
			defs = map[string]any{}
			m[defsKW] = defs
		}
		defs["zzself"] = map[string]any{"$ref": gen.Pick(r, []string{"http://example.com/schemas/root.json", "root.json", "http://example.com/schemas/root.json#/definitions/zzleaf", "root.json#/definitions/zzleaf"})}
		defs["zzleaf"] = map[string]any{"type": gen.Pick(r, gen.TypeNames)}
		defs["zzemb"] = map[string]any{"$id": "sub/emb.json#", "definitions": map[string]any{"x": map[string]any{"type": "integer"}}, "properties": map[string]any{"a": map[string]any{"$ref": gen.Pick(r, []string{"emb.json#/definitions/x", "#/definitions/x", "http://example.com/schemas/sub/emb.json#/definitions/x"})}}}
		if props, ok := m["properties"].(map[string]any); ok {
			props["a"] = map[string]any{"$ref": gen.Pick(r, []string{"#/definitions/zzleaf", "sub/emb.json", "#/definitions/zzself"})}
		} else if _, has := m["$ref"]; !has {
			m["properties"] = map[string]any{"a": map[string]any{"$ref": gen.Pick(r, []string{"#/definitions/zzleaf", "sub/emb.json", "#/definitions/zzself"})}}
		}
	}
	mc := &modelCase{draft: refmodel.D7, rootText: gen.Text(m), baseURI: baseURI}
	mod, rs, _, ok := mc.build(c)
	if !ok {
		return
	}
	alt, err := refmodel.Build(&refmodel.Universe{Draft: refmodel.D2020, Root: gen.Parse(mc.rootText)})
	if err != nil {
		alt = nil
	} else {
		alt.MaxSteps = 20000
	}
	var ts traceStats
	mod.Trace = ts.hook()
	insts := gen.Instances(r, m, 14, false, names...)
	if directed != nil {
		insts = directed
	}
	for _, im := range insts {
		valid, decided := mc.compare(c, mod, rs, im, &ts, "draft-07")
		if !decided {
			continue
		}
		key, _ := ts.summarize(c, valid)
		if modeMattered(alt, im, valid) {
			c.Count("mode_switch_mattered", 1)
			c.Nontrivial("a|" + key)
		}
	}
	if c.Idx%3000 == 0 {
		c.Sample(map[string]any{"kind": "draft-07 document", "schema": json.RawMessage(mc.rootText)})
	}
}

func (c02) remote(c *fw.Case) {
	r := c.R
	remote := gen.Schema(r, gen.SchemaOpts{Draft: gen.D7, MaxDepth: 2 + r.IntN(2), Refs: true, Names: gen.Names[:4]})
	rm, ok := remote.(map[string]any)
	if !ok {
		return
	}
	ownSchema := r.IntN(2) == 0
	if ownSchema {
		rm["$schema"] = d7uri(c)
	}
	uri := "http://h/dir/r1.json"
	ref := map[string]any{"$ref": gen.Pick(r, []string{uri, "r1.json", "/dir/r1.json", "./r1.json"})}
	if r.IntN(3) == 0 { // siblings of $ref must be ignored in draft-07
		ref["type"] = "null"
		ref["minimum"] = json.Number("1000000")
	}
	wrapper := r.IntN(6)
	var root map[string]any
	wrapInst := func(v any) any { return v }
	switch wrapper {
	case 0:
		root = ref
	case 1:
		root = map[string]any{"allOf": []any{ref}}
	case 2:
		root = map[string]any{"properties": map[string]any{"a": ref}}
		wrapInst = func(v any) any { return map[string]any{"a": v} }
	case 3:
		root = map[string]any{"items": map[string]any{"anyOf": []any{ref}}}
		wrapInst = func(v any) any { return []any{v} }
	case 4:
		root = map[string]any{"properties": map[string]any{"a": map[string]any{"items": []any{map[string]any{"allOf": []any{ref}}}}}}
		wrapInst = func(v any) any { return map[string]any{"a": []any{v}} }
	default:
		root = map[string]any{"dependencies": map[string]any{"a": map[string]any{"properties": map[string]any{"a": ref}}}}
		wrapInst = func(v any) any { return map[string]any{"a": v} }
	}
	root["$schema"] = d7uri(c)
	docs := map[string]string{uri: gen.Text(rm)}
	hops := 1
	if r.IntN(2) == 0 {
		// two (or three) hops: the root reaches the draft-sensitive document through intermediate documents that
		// declare no $schema either, so the draft has to be inherited along the whole chain
		hops = 2 + r.IntN(2)
		prev := uri
		for h := 2; h <= hops; h++ {
			mid := fmt.Sprintf("http://h/dir/mid%d.json", h)
			var body map[string]any
			switch r.IntN(3) {
			case 0:
				body = map[string]any{"$ref": prev}
			case 1:
				body = map[string]any{"allOf": []any{map[string]any{"$ref": gen.Pick(r, []string{prev, prev[len("http://h/dir/"):]})}}}
			default:
				body = map[string]any{"definitions": map[string]any{"x": map[string]any{"$ref": prev}}, "anyOf": []any{map[string]any{"$ref": "#/definitions/x"}}}
			}
			if r.IntN(4) == 0 {
				body["$schema"] = d7uri(c)
			}
			docs[mid] = gen.Text(body)
			prev = mid
		}
		// the root's reference now points at the outermost intermediate document
		retarget := func(m map[string]any) {
			m["$ref"] = prev
		}
		retarget(ref)
	}
	mc := &modelCase{draft: refmodel.D7, rootText: gen.Text(root), baseURI: "http://h/dir/root.json", docs: docs}
	if r.IntN(3) == 0 {
		// the same documents were used before by roots of the OTHER draft (none declared, 2020-12 declared, unsupported)
		first := fmt.Sprint(ref["$ref"])
		mc.priorRoots = []string{`{"$ref":"` + first + `"}`, `{"$schema":"` + gen.Schema2020URI + `","allOf":[{"$ref":"` + first + `"}]}`}
		if r.IntN(2) == 0 {
			mc.priorRoots = mc.priorRoots[:1]
		}
	}
	mod, rs, _, ok := mc.build(c)
	if !ok {
		return
	}
	altDocs := map[string]any{}
	for k, v := range mc.docs {
		altDocs[k] = gen.Parse(v)
	}
	u := &refmodel.Universe{Draft: refmodel.D2020, BaseURI: mc.baseURI, Root: gen.Parse(mc.rootText), Docs: altDocs}
	alt, err := refmodel.Build(u)
	if err != nil {
		alt = nil
	} else {
		alt.MaxSteps = 20000
	}
	var ts traceStats
	for _, im := range gen.Instances(r, rm, 10, false, gen.Names[:4]...) {
		inst := wrapInst(im)
		valid, decided := mc.compare(c, mod, rs, inst, &ts, "draft-07 with a loaded document")
		if !decided {
			continue
		}
		if modeMattered(alt, inst, valid) {
			c.Count("mode_switch_mattered_remote", 1)
			c.Nontrivial(fmt.Sprintf("b|w%d|hops%d|own=%v|%v|%s", wrapper, hops, ownSchema, valid, groupKeyOf(rm)))
		}
	}
	if c.Idx%3000 == 6 {
		c.Sample(map[string]any{"kind": "draft-07 root + loaded document", "root": json.RawMessage(mc.rootText), "loaded": json.RawMessage(mc.docs[uri])})
	}
}

func groupKeyOf(doc any) string {
	kws := map[string]bool{}
	keywordSet(doc, kws, 0)
	return groupKey(kws)
}

func (c02) unsupported(c *fw.Case) {
	r := c.R
	sv := gen.Pick(r, unsupportedSchemas)
	var body map[string]any
	switch r.IntN(3) {
	case 0:
		body = map[string]any{}
	case 1:
		body = map[string]any{"type": []any{"null", "boolean", "object", "array", "number", "string"}}
	default:
		body = map[string]any{"properties": map[string]any{"a": true}, "title": "t"}
	}
	body["$schema"] = sv
	text := gen.Text(body)
	var s jsonschema.Schema
	var rs *jsonschema.Resolved
	var err error
	if !c.CallChecked("Unmarshal+Resolve", text, func() {
		if err = json.Unmarshal([]byte(text), &s); err == nil {
			rs, err = s.Resolve(nil)
		}
	}) {
		return
	}
	if err != nil {
		// refused even earlier: also a refusal, nothing is validated under another draft
		c.Count("unsupported_refused_at_resolve", 1)
		c.Eval(1)
		c.Nontrivial("c|resolve|" + sv)
		return
	}
	for _, im := range gen.Instances(r, body, 6, false) {
		itext := gen.Text(im)
		valid, ok := validate(c, rs, text, gen.Canonical(itext), itext)
		if !ok {
			return
		}
		c.Eval(1)
		if valid {
			c.Violation(fmt.Sprintf("a root declaring the unsupported $schema %q was validated (Validate returned nil)", sv), map[string]any{"schema": json.RawMessage(text), "instance": json.RawMessage(itext)})
			return
		}
	}
	c.Nontrivial("c|validate|" + sv)
	if c.Idx%3000 == 9 {
		c.Sample(map[string]any{"kind": "unsupported $schema", "schema": json.RawMessage(text)})
	}
}

func (c02) Finalize(a *fw.Agg, t fw.Tier) { keywordCoverage(a, true) }

// nestedDependencies builds a draft-07 schema with dependencies at two levels and a set of instances over the names used.
func nestedDependencies(r *rand.Rand) (map[string]any, []any) {
	outer := []string{"a", "b", "c", "d"}
	inner := []string{"x", "y", "p", "q"}
	if r.IntN(4) == 0 {
		inner = outer // the same names at both levels
	}
	depsOver := func(names []string, sub any) map[string]any {
		deps := map[string]any{}
		schemaForm := r.IntN(len(names))
		for i, n := range names {
			if r.IntN(4) == 0 && i != schemaForm {
				continue
			}
			if i == schemaForm && sub != nil {
				deps[n] = sub
				continue
			}
			switch r.IntN(3) {
			case 0:
				deps[n] = map[string]any{"required": []any{gen.Pick(r, names)}}
			default:
				deps[n] = []any{gen.Pick(r, names)}
			}
		}
		return deps
	}
	innerSchema := map[string]any{"dependencies": depsOver(inner, nil)}
	var sub any
	hop := r.IntN(3)
	switch hop {
	case 0:
		sub = map[string]any{"properties": map[string]any{"inner": innerSchema}}
	case 1:
		sub = innerSchema // in place: the inner dependencies judge the same object
	default:
		sub = map[string]any{"allOf": []any{map[string]any{"properties": map[string]any{"inner": innerSchema}}}}
	}
	m := map[string]any{"dependencies": depsOver(outer, sub)}
	subset := func(names []string) map[string]any {
		o := map[string]any{}
		for _, n := range names {
			if r.IntN(3) > 0 {
				o[n] = json.Number("1")
			}
		}
		return o
	}
	var insts []any
	for k := 0; k < 24; k++ {
		o := subset(outer)
		if hop != 1 {
			o["inner"] = subset(inner)
		} else {
			for n, v := range subset(inner) {
				o[n] = v
			}
		}
		insts = append(insts, o)
	}
	return m, insts
}

package props

import (
	"crypto/sha256"
	"encoding/hex"
	"encoding/json"
	"fmt"
	"math/rand/v2"
	"net/url"
	"reflect"
	"runtime"
	"strings"
	"sync"
	"sync/atomic"
	"time"

	"github.com/google/jsonschema-go/jsonschema"

	"verif/internal/fw"
	"verif/internal/gen"
)

// C13: a Resolved and shared schemas are safe for concurrent use.
type c13 struct{}

func init() { register(c13{}) }

func (c13) ID() string              { return "C13" }
func (c13) Cases(t fw.Tier) int     { return tierN(t, 96, 2400) }
func (c13) BatchSize(t fw.Tier) int { return 1 } // one fresh process per case: caches are filled under contention (cold start)
func (c13) Race(t fw.Tier) bool     { return true }
func (c13) Rule() string {
	return "every case is ONE FRESH PROCESS built with the Go race detector (halt_on_error=0, reports collected from the log files, de-duplicated by line-stripped stacks, only blocks with a library frame count). " +
		"Its concurrent phase runs FIRST (cold start: lazily filled caches - structProperties, jsonNames - are filled under contention) with k in {2,4,8,16} goroutines released from a barrier, all at once: " +
		"W1 Validate on one shared Resolved (pattern, patternProperties, required, $dynamicRef chains through a loaded document, unevaluated*, uniqueItems, draft-07), W2 ApplyDefaults on per-goroutine instances incl. pointer-to-struct instances (the only path into the struct field cache), " +
		"W3 For/ForType on the same types with one shared ForOptions.TypeSchemas, W4 Marshal + CloneSchemas + Resolve (loader handing out a freshly unmarshaled document per call) + Validate on one shared Schema tree simultaneously, W5 Unmarshal storms. " +
		"Half of the processes are INSTRUMENTED (the hook injects seeded Gosched/microsleeps at validate entries and inside the two check-then-act cache windows and counts overlap); the other half are CLEAN: the hook is removed and the harness touches no shared memory between barrier and join, because every atomic counter of a monitor is a happens-before edge that hides races from the detector. Afterwards the same calls run sequentially and every concurrent result (verdict, marshaled bytes, inferred schema bytes, clone bytes) must equal the sequential one. " +
		"Evidence: max goroutines simultaneously inside Validate, cache-miss window entries, yields injected, calls compared, race-report blocks. Non-trivial: a case whose overlap inside the library was >= 2; distinct by (workload mix, k, seed)."
}
func (c13) Assumptions() []string {
	return []string{"the Go race detector observes only the executed interleavings; absence of reports is 'held on these executions'",
		"the loader never hands out a shared *Schema (Resolve records $schema in loaded documents); ApplyDefaults runs on distinct instances only; harness state is atomics/own mutex only",
		"operations are pure functions of immutable shared inputs, so linearizability degenerates to per-call equality with the sequential result (no porcupine model needed)"}
}

// struct types for W2 / W3
type c13Inner struct {
	X int    `json:"x"`
	Y string `json:"y,omitempty"`
}
type c13A struct {
	Name  string            `json:"name"`
	Tags  []string          `json:"tags,omitempty"`
	Inner c13Inner          `json:"inner"`
	M     map[string]*int16 `json:"m"`
	c13Inner
}
type c13B struct {
	A   *c13A      `json:"a"`
	L   [2]float32 `json:"l"`
	Any any        `json:"any"`
	T   time.Time  `json:"t"`
}
type c13Custom struct{ V int }
type c13C struct {
	C  c13Custom   `json:"c"`
	PC *c13Custom  `json:"pc"`
	Cs []c13Custom `json:"cs"`
	B  c13B        `json:"b"`
}

type c13call struct {
	kind string
	run  func() string // returns a result digest
}

func digestBytes(b []byte, err error) string {
	if err != nil {
		return "error"
	}
	s := sha256.Sum256(b)
	return hex.EncodeToString(s[:8])
}

const c13Remote = `{"$id":"http://h/tree.json","$dynamicAnchor":"node","type":"object","properties":{"data":true,"children":{"type":"array","items":{"$dynamicRef":"#node"}}}}`
const c13Root = `{"$id":"http://h/strict.json","$dynamicAnchor":"node","$ref":"tree.json","unevaluatedProperties":false,
 "patternProperties":{"^x-":{"type":"string","pattern":"^[a-z]+$","minLength":1}},
 "properties":{"data":{"anyOf":[{"type":"integer","minimum":0},{"type":"array","uniqueItems":true,"prefixItems":[{"const":1}],"unevaluatedItems":{"type":"string"}}]},
  "opt":{"type":"object","required":["a","b"],"dependentRequired":{"a":["b"]},"propertyNames":{"pattern":"^[a-z]$"},"properties":{"a":{"default":1},"b":{"default":"x"},"c":{"properties":{"d":{"default":[1]}}}}}}}`

// required lists of 3 and 6 names (JSON-decoded: spare capacity behind them) next to dependentRequired with different lists
const c13Dep = `{"properties":{"dep":{"required":["r1","r2","r3"],"dependentRequired":{"t1":["p","r1"],"t2":["q"],"t3":["p","q","z"]},
  "properties":{"deep":{"required":["a","b","c","d","e","f"],"dependentRequired":{"x":["y"],"y":["x","w"]}}}}}}`
const c13Def = `{"type":"object","required":["n"],"minProperties":1,"maxProperties":20,"properties":{
  "cfg":{"type":"object","required":["host"],"minProperties":1,"default":{"host":"h","tags":["a","b"]},"properties":{"host":{"type":"string"},"port":{"default":80},"tags":{"type":"array"},
     "tls":{"type":"object","default":{"on":true},"properties":{"on":{"type":"boolean"},"ciphers":{"default":["x",{"y":1}]}}}}},
  "list":{"default":[1,2,{"k":"v"}]},"n":{"default":1},"s":{"default":"str"},"nul":{"default":null},
  "m":{"properties":{"deep":{"properties":{"leaf":{"default":{"a":{"b":[]}}}}}}}}}`
const c13Cold = `{"properties":{"p":{"$ref":"#/$defs/a~1b/properties/x~0y/items/0"},"q":{"$ref":"#/$defs/c~1~1d~0~0/$defs/e~01/anyOf/1"},"r":{"$ref":"#/$defs/a~1b/properties/x~0y/items/0"}},
  "$defs":{"a/b":{"properties":{"x~y":{"items":[{"type":"integer"},{"type":"null"}]}}},"c//d~~":{"$defs":{"e~1":{"anyOf":[false,{"type":"string"}]}}}},"$schema":"http://json-schema.org/draft-07/schema#"}`
const c13Dep7 = `{"$schema":"http://json-schema.org/draft-07/schema#","required":["r1","r2","r3"],"dependencies":{"t1":["p"],"t2":["q","r2"],"t3":{"required":["s"]}}}`
const c13D7 = `{"$schema":"http://json-schema.org/draft-07/schema#","definitions":{"p":{"$id":"#pos","type":"integer","minimum":0}},"items":[{"$ref":"#pos"},{"type":"string"}],"additionalItems":{"$ref":"#pos","maximum":-1},"dependencies":{"a":["b"],"c":{"required":["d"]}}}`

func (c13) Run(c *fw.Case) {
	r := c.R
	fw.DisableStepBudget()
	// Two kinds of processes. INSTRUMENTED (even cases): the hook counts overlap, injects yields and widens the cache
	// windows - but its atomic counters are synchronisation, and the race detector treats them as happens-before edges
	// between the goroutines, which HIDES races in the library. CLEAN (odd cases): the hook is removed altogether and
	// the harness touches no shared memory between the barrier and the join, so the race detector sees the library's
	// own synchronisation only.
	clean := c.Idx%2 == 1
	fw.SetHookEnabled(!clean)
	defer fw.SetHookEnabled(true)
	k := []int{2, 4, 8, 16}[(c.Idx/2)%4]
	mix := c.Idx / 8 % 4 // which workloads dominate
	// --- shared inputs (built single-threaded; Resolve itself is exercised concurrently in W4) ---
	var rootS, d7S jsonschema.Schema
	if err := json.Unmarshal([]byte(c13Root), &rootS); err != nil {
		panic(err)
	}
	if err := json.Unmarshal([]byte(c13D7), &d7S); err != nil {
		panic(err)
	}
	loader := func(u *url.URL) (*jsonschema.Schema, error) { // a freshly unmarshaled document per call
		if u.String() != "http://h/tree.json" {
			return nil, fmt.Errorf("no %s", u)
		}
		var s jsonschema.Schema
		if err := json.Unmarshal([]byte(c13Remote), &s); err != nil {
			return nil, err
		}
		return &s, nil
	}
	rs, err := rootS.Resolve(&jsonschema.ResolveOptions{Loader: loader})
	if err != nil {
		panic("c13 root schema: " + err.Error())
	}
	rs7, err := d7S.Resolve(nil)
	if err != nil {
		panic("c13 draft-07 schema: " + err.Error())
	}
	var depS, dep7S jsonschema.Schema
	json.Unmarshal([]byte(c13Dep), &depS)
	json.Unmarshal([]byte(c13Dep7), &dep7S)
	rsDep, err := depS.Resolve(nil)
	if err != nil {
		panic("c13 dep schema: " + err.Error())
	}
	rsDep7, err := dep7S.Resolve(nil)
	if err != nil {
		panic("c13 dep7 schema: " + err.Error())
	}
	// defaults of every JSON type (objects and arrays included, nested defaults below an object default), resolved with
	// ValidateDefaults: whatever Resolve keeps from checking the defaults is shared by all later ApplyDefaults calls
	var defS jsonschema.Schema
	json.Unmarshal([]byte(c13Def), &defS)
	rsDef, err := defS.Resolve(&jsonschema.ResolveOptions{ValidateDefaults: true})
	if err != nil {
		panic("c13 defaults schema: " + err.Error())
	}
	defInsts := []string{`{}`, `{"cfg":{}}`, `{"other":1}`, `{"cfg":{"tls":{}}}`, `{"cfg":{"host":"x","tls":{"on":false}},"list":[]}`, `{"n":2,"m":{"deep":{}}}`}
	depInsts := []any{
		gen.Canonical(`{"dep":{"r1":1,"r2":1,"r3":1,"t1":1,"p":1}}`), gen.Canonical(`{"dep":{"r1":1,"r2":1,"r3":1,"t2":1,"q":1}}`), gen.Canonical(`{"dep":{"r1":1,"r2":1,"r3":1,"t3":1,"p":1,"q":1,"z":1}}`),
		gen.Canonical(`{"dep":{"r1":1,"r2":1,"r3":1,"t1":1}}`), gen.Canonical(`{"dep":{"r1":1,"r2":1,"r3":1}}`), gen.Canonical(`{"dep":{"r1":1,"r2":1,"r3":1,"deep":{"a":1,"b":1,"c":1,"d":1,"e":1,"f":1,"x":1,"y":1,"w":1}}}`),
		gen.Canonical(`{"dep":{"r1":1,"r2":1,"r3":1,"deep":{"a":1,"b":1,"c":1,"d":1,"e":1,"f":1,"x":1,"y":1}}}`), gen.Canonical(`{"dep":{"r1":1,"r2":1,"r3":1,"deep":{"a":1,"b":1,"c":1,"d":1,"e":1,"f":1,"x":1}}}`),
	}
	dep7Insts := []any{gen.Canonical(`{"r1":1,"r2":1,"r3":1,"t1":1,"p":1}`), gen.Canonical(`{"r1":1,"r2":1,"r3":1,"t2":1,"q":1}`), gen.Canonical(`{"r1":1,"r2":1,"r3":1,"t3":1,"s":1}`), gen.Canonical(`{"r1":1,"r2":1,"r3":1,"t1":1}`), gen.Canonical(`{"r1":1,"r2":1,"r3":1}`)}
	// a generated schema as third shared Resolved
	gdoc := gen.Schema(r, gen.SchemaOpts{Draft: gen.D2020, MaxDepth: 3, Refs: true, Uneval: true, Focus: "object", Names: gen.Names[:4]})
	gtext := gen.Text(gdoc)
	var gS jsonschema.Schema
	var rsG *jsonschema.Resolved
	if json.Unmarshal([]byte(gtext), &gS) == nil {
		rsG, _ = gS.Resolve(nil)
	}
	instTexts := []string{
		`{"data":1}`, `{"data":-1}`, `{"data":[1,"a","b"]}`, `{"data":[1,"a","a"]}`, `{"data":[1,2]}`, `{"x-k":"abc"}`, `{"x-k":"ABC"}`, `{"zzz":1}`,
		`{"data":1,"children":[{"data":2,"children":[{"data":[1,"q"]}]},{"data":3,"extra":1}]}`, `{"children":[{"children":[{"children":[]}]}]}`,
		`{"opt":{"a":1,"b":2}}`, `{"opt":{"a":1}}`, `{"opt":{"A":1,"a":1,"b":1}}`, `[]`, `null`,
		// long arrays under uniqueItems (hash path), with and without duplicates
		`{"data":[1,"a","b","c","d","e","f","g","h","i","j","k"]}`, `{"data":[1,"a","b","c","d","e","f","g","h","i","j","a"]}`,
		`{"data":[1,"q","r","s","t","u","v","w","x","y","z","zz","zzz","q"]}`, `{"data":[1,"aa","bb","cc","dd","ee","ff","gg","hh","ii"]}`,
		`{"children":[{"data":[1,"a","b","c","d","e","f","g","h","i","j","k","l"]},{"data":[1,"a","b","c","d","e","f","g","h","i","i"]}]}`,
	}
	var insts []any
	for _, t := range instTexts {
		insts = append(insts, gen.Canonical(t))
	}
	for _, im := range gen.Instances(r, gdoc, 8, false, gen.Names[:4]...) {
		insts = append(insts, gen.Canonical(gen.Text(im)))
	}
	d7insts := []any{gen.Canonical(`[1,"a",2]`), gen.Canonical(`[1,"a"]`), gen.Canonical(`[-1]`), gen.Canonical(`{"a":1}`), gen.Canonical(`{"a":1,"b":2,"c":3}`), gen.Canonical(`{"c":1,"d":2}`)}
	custom := &jsonschema.Schema{Type: "object", Properties: map[string]*jsonschema.Schema{"V": {Type: "integer", Enum: []any{7, 8}}}}
	forOpts := &jsonschema.ForOptions{TypeSchemas: map[reflect.Type]*jsonschema.Schema{reflect.TypeFor[c13Custom](): custom}, IgnoreInvalidTypes: true}
	types := []reflect.Type{reflect.TypeFor[c13A](), reflect.TypeFor[c13B](), reflect.TypeFor[c13C](), reflect.TypeFor[[]map[string]c13A](), reflect.TypeFor[*c13C]()}

	// Schema values built or edited in Go (shared, read-only): orders that list every property, a subset, absent names
	// between and AFTER the present ones (For output with a property deleted afterwards), one sub-schema object used twice
	// (built by hand, without calling into the package: set-up code must not warm anything that the concurrent phase is meant
	// to meet cold - a CloneSchemas or ForType call here once hid a lazily initialised table from the race detector)
	var goBuilt []*jsonschema.Schema
	goBuilt = append(goBuilt,
		&jsonschema.Schema{Type: "object", Properties: map[string]*jsonschema.Schema{"name": {Type: "string"}, "tags": {Types: []string{"null", "array"}, Items: &jsonschema.Schema{Type: "string"}}, "inner": {Type: "object", Properties: map[string]*jsonschema.Schema{"x": {Type: "integer"}, "y": {Type: "string"}}, Required: []string{"x"}, AdditionalProperties: &jsonschema.Schema{Not: &jsonschema.Schema{}}, PropertyOrder: []string{"x", "y"}}},
			Required: []string{"name", "inner"}, AdditionalProperties: &jsonschema.Schema{Not: &jsonschema.Schema{}}, PropertyOrder: []string{"name", "tags", "inner"}},
		// the same after `delete(s.Properties, "inner")`: the order list ends with a name that is no property any more
		&jsonschema.Schema{Type: "object", Properties: map[string]*jsonschema.Schema{"name": {Type: "string"}, "tags": {Types: []string{"null", "array"}, Items: &jsonschema.Schema{Type: "string"}}},
			Required: []string{"name"}, AdditionalProperties: &jsonschema.Schema{Not: &jsonschema.Schema{}}, PropertyOrder: []string{"name", "tags", "inner"}},
	)
	shared := &jsonschema.Schema{Type: "object", Properties: map[string]*jsonschema.Schema{"zip": {Type: "string"}, "city": {Type: "string"}}, PropertyOrder: []string{"zip", "city"}}
	goBuilt = append(goBuilt,
		&jsonschema.Schema{Properties: map[string]*jsonschema.Schema{"b": {Type: "integer"}, "a": {Type: "string"}, "c": {}}, PropertyOrder: []string{"c", "a"}},
		&jsonschema.Schema{Properties: map[string]*jsonschema.Schema{"b": {Type: "integer"}, "a": {Type: "string"}}, PropertyOrder: []string{"x1", "b", "x2", "a", "x3", "x4"}},
		&jsonschema.Schema{Properties: map[string]*jsonschema.Schema{"billing": shared, "note": {Type: "string"}, "shipping": shared}, PropertyOrder: []string{"billing", "note", "shipping", "gone"}},
		&jsonschema.Schema{Items: &jsonschema.Schema{Properties: map[string]*jsonschema.Schema{"k": {Const: jsonschema.Ptr[any]("v")}}, PropertyOrder: []string{"k", "k2"}}, Properties: map[string]*jsonschema.Schema{}, PropertyOrder: []string{"none"}},
	)

	sharedNoLoader := &jsonschema.ResolveOptions{BaseURI: "http://h/strict.json"}
	sharedWithLoader := &jsonschema.ResolveOptions{BaseURI: "http://h/strict.json", Loader: loader}

	// --- the call list: a pure function of the seed ---
	var inside, maxInside atomic.Int64
	enter := func() {
		n := inside.Add(1)
		for {
			m := maxInside.Load()
			if n <= m || maxInside.CompareAndSwap(m, n) {
				break
			}
		}
	}
	verdict := func(rs *jsonschema.Resolved, inst any) func() string {
		if clean {
			return func() string { return fmt.Sprint(rs.Validate(inst) == nil) }
		}
		return func() string {
			enter()
			err := rs.Validate(inst)
			inside.Add(-1)
			return fmt.Sprint(err == nil)
		}
	}
	var calls []c13call
	add := func(kind string, f func() string) { calls = append(calls, c13call{kind, f}) }
	nCalls := 60 + 20*k
	for i := 0; i < nCalls; i++ {
		w := r.IntN(10)
		switch {
		case w < 4 || (mix == 0 && w < 7): // W1
			switch r.IntN(6) {
			case 4:
				add("W1-dep", verdict(rsDep, gen.Pick(r, depInsts)))
			case 5:
				add("W1-dep7", verdict(rsDep7, gen.Pick(r, dep7Insts)))
			case 0:
				add("W1-d7", verdict(rs7, gen.Pick(r, d7insts)))
			case 1:
				if rsG != nil {
					add("W1-gen", verdict(rsG, gen.Pick(r, insts)))
					break
				}
				fallthrough
			default:
				add("W1", verdict(rs, gen.Pick(r, insts)))
			}
		case w == 4 || (mix == 1 && w < 7): // W2: ApplyDefaults on a private instance
			switch r.IntN(5) {
			case 3, 4:
				text := gen.Pick(r, defInsts)
				if r.IntN(3) == 0 {
					add("W1-def", verdict(rsDef, gen.Canonical(text)))
					break
				}
				add("W2-def", func() string {
					x := gen.Canonical(text) // a private instance
					err := rsDef.ApplyDefaults(&x)
					// read (and write) everything that was inserted: inserted containers must be private to this instance
					if m, ok := x.(map[string]any); ok {
						if cfg, ok := m["cfg"].(map[string]any); ok {
							cfg["touched"] = true
							if tls, ok := cfg["tls"].(map[string]any); ok {
								tls["touched"] = true
							}
							if tags, ok := cfg["tags"].([]any); ok && len(tags) > 0 {
								tags[0] = "touched"
							}
						}
						if l, ok := m["list"].([]any); ok && len(l) > 2 {
							if lm, ok := l[2].(map[string]any); ok {
								lm["touched"] = true
							}
						}
					}
					data, _ := json.Marshal(x)
					return fmt.Sprint(err == nil) + string(data)
				})
			case 0:
				add("W2-map", func() string {
					var x any = map[string]any{"opt": map[string]any{"z": 1}}
					err := rs.ApplyDefaults(&x)
					data, _ := json.Marshal(x)
					return fmt.Sprint(err == nil) + string(data)
				})
			case 1:
				add("W2-struct", func() string { // pointer-to-struct: the only path into structPropertiesOf
					type opt struct {
						A int    `json:"a"`
						B string `json:"b,omitempty"`
					}
					x := struct {
						Data int  `json:"data"`
						Opt  *opt `json:"opt"`
					}{Data: 1}
					err := rs.ApplyDefaults(&x)
					return fmt.Sprint(err == nil)
				})
			default:
				add("W2-struct2", func() string {
					x := c13A{Name: "n"}
					err := rs.ApplyDefaults(&x)
					return fmt.Sprint(err == nil)
				})
			}
		case w == 5 || w == 6 || (mix == 2 && w < 9): // W3: For/ForType with shared options
			t := gen.Pick(r, types)
			add("W3", func() string {
				s, err := jsonschema.ForType(t, forOpts)
				if err != nil {
					return "error"
				}
				return digestBytes(json.Marshal(s))
			})
		case w == 7 || w == 8 || (mix == 3): // W4: Marshal / CloneSchemas / Resolve / Validate on one shared tree
			switch r.IntN(6) {
			case 4:
				gs := gen.Pick(r, goBuilt)
				add("W4-marshal-go", func() string { return digestBytes(json.Marshal(gs)) })
			case 5:
				gs := gen.Pick(r, goBuilt)
				add("W4-marshal-method", func() string { return digestBytes(gs.MarshalJSON()) })
			case 0:
				add("W4-marshal", func() string { return digestBytes(json.Marshal(&rootS)) })
			case 1:
				add("W4-clone", func() string { return digestBytes(json.Marshal(rootS.CloneSchemas())) })
			case 2:
				if r.IntN(4) == 0 {
					// a document that NO sequential code of this process has resolved before: its references are pointers through
					// names that need ~0 / ~1 unescaping, so whatever the package remembers about a pointer string process-wide is
					// first computed while other goroutines ask for the same string
					add("W4-resolve-cold", func() string {
						var cs jsonschema.Schema
						if err := json.Unmarshal([]byte(c13Cold), &cs); err != nil {
							return "unmarshal-error"
						}
						crs, err := cs.Resolve(nil)
						if err != nil {
							return "resolve-error"
						}
						return fmt.Sprint(crs.Validate(map[string]any{"p": 1.0, "q": "s"}) == nil, crs.Validate(map[string]any{"p": "s"}) == nil)
					})
					break
				}
				if r.IntN(3) == 0 {
					// one ResolveOptions VALUE shared by all goroutines (a package-level default, say): without a Loader the
					// remote reference fails to load, with one it resolves; either way the options are only read
					so := sharedNoLoader
					if r.IntN(2) == 0 {
						so = sharedWithLoader
					}
					add("W4-resolve-shared-options", func() string {
						_, err := rootS.Resolve(so)
						return fmt.Sprint(err == nil)
					})
					break
				}
				inst := gen.Pick(r, insts)
				add("W4-resolve", func() string {
					rs2, err := rootS.Resolve(&jsonschema.ResolveOptions{Loader: loader, ValidateDefaults: true})
					if err != nil {
						return "error"
					}
					return fmt.Sprint(rs2.Validate(inst) == nil)
				})
			default:
				add("W4-d7-marshal", func() string { return digestBytes(json.Marshal(&d7S)) })
			}
		default: // W5: Unmarshal storm
			text := gen.Pick(r, []string{c13Root, c13D7, c13Remote, gtext})
			add("W5", func() string {
				var s jsonschema.Schema
				if err := json.Unmarshal([]byte(text), &s); err != nil {
					return "error"
				}
				return digestBytes(json.Marshal(&s))
			})
		}
	}

	if c.Idx%3 == 0 {
		// in a third of the processes EVERY goroutine starts with the cold document: k simultaneous first uses
		coldRun := func() string {
			var cs jsonschema.Schema
			if err := json.Unmarshal([]byte(c13Cold), &cs); err != nil {
				return "unmarshal-error"
			}
			crs, err := cs.Resolve(nil)
			if err != nil {
				return "resolve-error"
			}
			return fmt.Sprint(crs.Validate(map[string]any{"p": 1.0, "q": "s"}) == nil, crs.Validate(map[string]any{"p": "s"}) == nil)
		}
		first := make([]c13call, 0, k+len(calls))
		for g := 0; g < k; g++ {
			first = append(first, c13call{"W4-resolve-cold", coldRun})
		}
		calls = append(first, calls...)
	}

	if c.Idx%3 == 2 {
		// in the last third every goroutine starts with a call that FAILS (each for another reason): what a failing call
		// releases, unlocks or gives back on its way out must not be released twice or left for the calls that follow
		first := make([]c13call, 0, 2*k+len(calls))
		for g := 0; g < k; g++ {
			first = append(first, c13call{"W4-failing-call", c13Failing(g)})
		}
		if k >= 8 {
			// ... followed, in every goroutine at once, by ONE DEEP validation (a tree nested 2500 levels, ~10000 nested
			// evaluations per call): whatever a call counts, measures or bounds is its own, not the sum over the calls in flight
			var deep any = map[string]any{"data": 1.0}
			for i := 0; i < 2500; i++ {
				deep = map[string]any{"children": []any{deep}}
			}
			for g := 0; g < k; g++ {
				first = append(first, c13call{"W1-deep", verdict(rs, deep)})
			}
		}
		calls = append(first, calls...)
	}

	if c.Idx%3 == 1 {
		// in another third EVERY goroutine starts by resolving the shared tree with the SAME options value that carries no Loader
		// (the remote reference then fails to load): k simultaneous calls that may only read their options
		first := make([]c13call, 0, k+len(calls))
		for g := 0; g < k; g++ {
			first = append(first, c13call{"W4-resolve-shared-options", func() string {
				_, err := rootS.Resolve(sharedNoLoader)
				return fmt.Sprint(err == nil)
			}})
		}
		calls = append(first, calls...)
	}

	// --- hook: seeded yields and window widening ---
	var yields, missWindows, hookEvents atomic.Int64
	hseed := uint64(c.Idx)*7919 + c.Seed
	var hcount atomic.Uint64
	if !clean {
		fw.SetExtraHook(func(point string) {
			n := hcount.Add(1)
			hookEvents.Add(1)
			x := (n*0x9E3779B97F4A7C15 + hseed) >> 59 // 5 pseudo-random bits
			if strings.HasPrefix(point, "cache-miss") {
				missWindows.Add(1)
				time.Sleep(200 * time.Microsecond) // widen the check-then-act window
				return
			}
			switch {
			case x == 0:
				time.Sleep(time.Duration(1+n%50) * time.Microsecond)
				yields.Add(1)
			case x < 6:
				runtime.Gosched()
				yields.Add(1)
			}
		})
	}
	defer fw.SetExtraHook(nil)

	// --- concurrent phase (first: cold caches) ---
	conc := make([]string, len(calls))
	var wg sync.WaitGroup
	start := make(chan struct{})
	panicMsgs := make([]string, k) // one slot per goroutine: no shared memory
	for g := 0; g < k; g++ {
		wg.Add(1)
		go func(g int) {
			defer wg.Done()
			defer func() {
				if rec := recover(); rec != nil {
					panicMsgs[g] = fmt.Sprint(rec)
				}
			}()
			<-start
			for i := g; i < len(calls); i += k {
				conc[i] = calls[i].run()
			}
		}(g)
	}
	close(start)
	wg.Wait()
	fw.SetExtraHook(nil)
	for _, pm := range panicMsgs {
		if pm != "" {
			c.Violation("a concurrent call panicked: "+pm, map[string]any{"goroutines": k})
			return
		}
	}
	// --- sequential baseline ---
	mismatches := 0
	for i, cl := range calls {
		seq := cl.run()
		c.Eval(1)
		if seq != conc[i] {
			mismatches++
			if mismatches <= 3 {
				c.Violation(fmt.Sprintf("a %s call gave another result concurrently (%s) than alone (%s)", cl.kind, conc[i], seq), map[string]any{"call_index": i, "kind": cl.kind, "goroutines": k, "concurrent": conc[i], "sequential": seq})
			}
		}
		c.Count("calls:"+strings.SplitN(cl.kind, "-", 2)[0], 1)
	}
	c.Count("hook_events", int(hookEvents.Load()))
	c.Count("yields_injected", int(yields.Load()))
	c.Count("cache_miss_window_entries", int(missWindows.Load()))
	c.Count(fmt.Sprintf("max_inside_validate=%d", maxInside.Load()), 1)
	if clean {
		c.Count("clean_processes(no harness synchronisation)", 1)
		c.Nontrivial(fmt.Sprintf("clean|k%d|mix%d|seed%d|case%d", k, mix, c.Seed, c.Idx))
	} else if maxInside.Load() >= 2 {
		c.Nontrivial(fmt.Sprintf("k%d|mix%d|seed%d|case%d", k, mix, c.Seed, c.Idx))
	} else {
		c.Inconclusive("overlap inside Validate never reached 2 in this process")
	}
	c.Sample(map[string]any{"goroutines": k, "mix": mix, "clean": clean, "calls": len(calls), "max_goroutines_inside_Validate": maxInside.Load(), "cache_miss_window_entries": missWindows.Load(), "yields_injected": yields.Load()})
	_ = rand.Int
}

// Finalize turns the race detector's report blocks into violations.
func (c13) Finalize(a *fw.Agg, t fw.Tier) {
	for i, blk := range a.RaceBlocks {
		if i >= 5 {
			break
		}
		first := ""
		for _, l := range strings.Split(blk, "\n") {
			if strings.Contains(l, "jsonschema-go/jsonschema.") {
				first = strings.TrimSpace(l)
				break
			}
		}
		a.AddViolation(a.RaceCases[i], "DATA RACE reported by the race detector in "+first, map[string]any{"report": blk})
	}
	a.Extra["race_report_blocks_total"] = a.RaceRaw
	a.Extra["race_report_blocks_in_library_distinct"] = len(a.RaceBlocks)
}

// c13Failing returns one of the calls that end in an error (the outcome string says whether it did).
func c13Failing(g int) func() string {
	docs := []struct {
		text string
		opts *jsonschema.ResolveOptions
	}{
		{`{"$dynamicAnchor":"n","properties":{"a":{"$dynamicRef":"#n","default":1}}}`, &jsonschema.ResolveOptions{ValidateDefaults: true}}, // not supported with defaults
		{`{"properties":{"a":{"type":"integer","default":"x"}}}`, &jsonschema.ResolveOptions{ValidateDefaults: true}},                      // a default its schema rejects
		{`{"$ref":"http://nowhere.example/x.json"}`, nil},                                                                                  // no Loader
		{`{"properties":{"a":{"pattern":"("}}}`, nil},                                                                                      // bad regular expression
		{`{"$ref":"#/$defs/missing"}`, &jsonschema.ResolveOptions{ValidateDefaults: true}},                                                 // dangling pointer
	}
	d := docs[g%len(docs)]
	return func() string {
		var s jsonschema.Schema
		if err := json.Unmarshal([]byte(d.text), &s); err != nil {
			return "unmarshal-error"
		}
		_, err := s.Resolve(d.opts)
		return fmt.Sprint(err != nil)
	}
}

package props

import (
	"encoding/json"
	"math/big"
	"sort"
)

func sortedKeys[V any](m map[string]V) []string {
	ks := make([]string, 0, len(m))
	for k := range m {
		ks = append(ks, k)
	}
	sort.Strings(ks)
	return ks
}

func newRat(s string) (*big.Rat, bool) {
	if s == "" {
		return nil, false
	}
	for _, ch := range s {
		if !(ch >= '0' && ch <= '9' || ch == '-' || ch == '+' || ch == '.' || ch == 'e' || ch == 'E') {
			return nil, false
		}
	}
	return new(big.Rat).SetString(s)
}

// nextNumber returns the JSON text of a number adjacent to text: ±1 for integers, ±2^-10 otherwise
// (all results are exactly representable decimal texts).
func nextNumber(text string, dir int) any {
	r, ok := new(big.Rat).SetString(text)
	if !ok {
		return text
	}
	step := big.NewRat(int64(dir), 1)
	if !r.IsInt() {
		step = big.NewRat(int64(dir), 1024)
	}
	r.Add(r, step)
	return ratJSON(r)
}

// ratJSON renders a rational whose denominator is a power of two (or 1) as an exact decimal json.Number.
func ratJSON(r *big.Rat) any {
	if r.IsInt() {
		return jsonNumber(r.Num().String())
	}
	// dyadic: exact with enough digits
	d := r.Denom()
	digits := d.BitLen()
	return jsonNumber(r.FloatString(digits))
}

func jsonNumber(s string) json.Number {
	// trim trailing zeros of a fraction
	if i := indexByte(s, '.'); i >= 0 {
		j := len(s)
		for j > i+2 && s[j-1] == '0' {
			j--
		}
		s = s[:j]
	}
	return json.Number(s)
}

func indexByte(s string, b byte) int {
	for i := 0; i < len(s); i++ {
		if s[i] == b {
			return i
		}
	}
	return -1
}

package props

import "verif/internal/fw"

// typeCase is replaced once the type corpus exists (c10 part 4).
func (p c10) typeCase(c *fw.Case) { p.structCase(c) }

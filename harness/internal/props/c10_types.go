package props

import (
	"encoding/json"
	"reflect"

	"github.com/google/jsonschema-go/jsonschema"

	"verif/internal/fw"
	"verif/internal/gen"
	"verif/internal/typecorpus"
)

// typeCase: For/ForType over the type corpus and reflect-built types incl. recursive ones, unsupported kinds at
// depth, with/without IgnoreInvalidTypes and with hostile TypeSchemas; the result (if any) must marshal, resolve
// and validate without panicking.
func (p c10) typeCase(c *fw.Case) {
	r := c.R
	var t reflect.Type
	switch r.IntN(6) {
	case 0:
		t = gen.Pick(r, typecorpus.Recursive)
	case 1:
		t = gen.Pick(r, append(append([]reflect.Type{}, typecorpus.Unsupported...), typecorpus.BadTags...))
	case 2:
		t = gen.Pick(r, append(append([]reflect.Type{}, typecorpus.PlainData...), typecorpus.WithStd...))
	case 3:
		// unsupported / recursive kinds wrapped at depth by reflect
		inner := gen.Pick(r, append(append([]reflect.Type{}, typecorpus.Recursive...), typecorpus.Unsupported...))
		switch r.IntN(4) {
		case 0:
			t = reflect.SliceOf(reflect.PointerTo(inner))
		case 1:
			t = reflect.MapOf(reflect.TypeFor[string](), reflect.ArrayOf(2, inner))
		case 2:
			t = reflect.StructOf([]reflect.StructField{{Name: "A", Type: reflect.TypeFor[int]()}, {Name: "B", Type: reflect.PointerTo(reflect.SliceOf(inner)), Tag: `json:"b,omitempty"`}})
		default:
			t = reflect.PointerTo(reflect.PointerTo(inner))
		}
	default:
		t = gen.SafeRandType(r, gen.TypeOpts{MaxDepth: 2 + r.IntN(4)})
	}
	var opts *jsonschema.ForOptions
	switch r.IntN(5) {
	case 0:
	case 1:
		opts = &jsonschema.ForOptions{IgnoreInvalidTypes: true}
	case 2: // hostile TypeSchemas
		shared := &jsonschema.Schema{Type: "string"}
		cyc := &jsonschema.Schema{}
		cyc.Not = &jsonschema.Schema{AllOf: []*jsonschema.Schema{shared, shared}}
		opts = &jsonschema.ForOptions{IgnoreInvalidTypes: r.IntN(2) == 0, TypeSchemas: map[reflect.Type]*jsonschema.Schema{
			reflect.TypeFor[typecorpus.Inner]():   gen.Pick(r, []*jsonschema.Schema{nil, shared, cyc, {Type: "object"}}),
			reflect.TypeFor[typecorpus.EmbBase](): gen.Pick(r, []*jsonschema.Schema{nil, {Type: "string"}, {Type: "object", Required: []string{"zz"}}, {Type: "object", Properties: map[string]*jsonschema.Schema{"base_a": nil, "q": shared}}}),
			reflect.TypeFor[int]():                gen.Pick(r, []*jsonschema.Schema{nil, {Types: []string{}}, {Type: "bogus", Types: []string{"x"}}}),
			reflect.TypeFor[typecorpus.Rec]():     {Type: "object"},
			reflect.TypeFor[chan int]():           {Type: "null"},
		}}
	default:
		opts = gen.Pick(r, []*jsonschema.ForOptions{customOpts(), {}})
	}
	var s *jsonschema.Schema
	var err error
	if c.Idx%40 == 7 {
		// the generic entry point on a few compile-time types
		if !c.CallChecked("For[T]", "corpus types", func() {
			_, _ = jsonschema.For[typecorpus.Scalars](opts)
			_, _ = jsonschema.For[typecorpus.Rec](opts)
			_, _ = jsonschema.For[typecorpus.BadChan](opts)
			_, _ = jsonschema.For[*typecorpus.BadTagWord](opts)
			_, _ = jsonschema.For[map[string][]typecorpus.EmbNested](opts)
			_, _ = jsonschema.For[any](nil)
		}) {
			return
		}
		c.Eval(6)
		// the type of a nil interface value: reflect.TypeOf(nil) is the nil Type
		var nothing any
		if !c.CallChecked("ForType", "reflect.TypeOf(nil): the nil reflect.Type", func() {
			_, _ = jsonschema.ForType(reflect.TypeOf(nothing), opts)
		}) {
			return
		}
		c.Eval(1)
	}
	if !c.CallChecked("ForType", map[string]any{"type": t.String(), "options": opts != nil}, func() { s, err = jsonschema.ForType(t, opts) }) {
		return
	}
	c.Eval(1)
	c.Nontrivial("ForType|" + errClass(err))
	if err != nil || s == nil {
		return
	}
	if !isTree(s, map[*jsonschema.Schema]bool{}) {
		c.Count("inferred_schema_not_a_tree(hostile TypeSchemas)", 1)
		// Resolve must still return (an error)
		if !c.CallChecked("Resolve", t.String(), func() { _, err = s.Resolve(nil) }) {
			return
		}
		c.Eval(1)
		return
	}
	var data []byte
	if !c.CallChecked("Marshal", t.String(), func() { data, err = json.Marshal(s) }) {
		return
	}
	c.Eval(1)
	var rs *jsonschema.Resolved
	var rerr error
	if !c.CallChecked("Resolve", t.String(), func() { rs, rerr = s.Resolve(nil) }) {
		return
	}
	c.Eval(1)
	if rerr == nil && err == nil {
		p.exercise(c, rs, string(data), false, false, "inferred")
	}
}

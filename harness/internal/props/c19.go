package props

import (
	"bytes"
	"encoding/json"
	"fmt"
	"reflect"
	"sort"
	"strings"

	"github.com/google/jsonschema-go/jsonschema"

	"verif/internal/fw"
	"verif/internal/gen"
	"verif/internal/jsonorder"
	"verif/internal/snap"
)

// C19: Marshal output is deterministic and honours PropertyOrder.
type c19 struct{}

func init() { register(c19{}) }

func (c19) ID() string { return "C19" }
func (c19) Cases(t fw.Tier) int {
	return tierN(t, 40000, 1200000)
}
func (c19) Processes(t fw.Tier) int { return tierN(t, 2, 4) }
func (c19) Rule() string {
	return "each case builds a Schema tree with 0-8 properties per level (one level in ten: 12-257 properties) over 3 levels (also below items / allOf / $defs / additionalProperties), each level with its own PropertyOrder: " +
		"a permutation, a subset, a superset with absent names, a long list of 17-40 entries over few properties, a prefix of one backing array shared between nodes (spare capacity behind it), nil, empty, or a list with duplicates; the Schema value is snapshotted around the Marshal calls and must not change; other fields are populated by the reflective generator. " +
		"Marshal is called 8 times in-process (bytes must be identical) and the same cases are marshaled in a second/third/fourth process whose digests must agree (randomised map iteration, fresh hash seeds). " +
		"The key order of every \"properties\" object is extracted at token level and compared with the rule computed from the Schema value: listed names that exist, in list order, then the remaining names ascending. Lists with duplicates must make Marshal fail. " +
		"Non-trivial: >=3 properties and an order that is not already ascending; distinct by (n, |order ∩ props|, |order \\ props|, depth)."
}
func (c19) Assumptions() []string {
	return []string{"token-level key order comes from encoding/json's Decoder.Token stream (internal/jsonorder)", "cross-process comparison relies on Go giving each process fresh map/hash seeds"}
}

var orderNames = []string{"a", "b", "c", "d", "e", "zeta", "Alpha", "é", "0", "10", "2", "_x", "", " ",
	"tag\U00010400", "tag\ufb01", "\U0001F600", "\uff21", "\ufffd", "\ue000"} // "" is a property name like any other; names above U+FFFF next to names in U+E000..U+FFFF (UTF-8 byte order and UTF-16 unit order differ there)

type orderGen struct {
	c       *fw.Case
	hasDup  bool
	keys    []string
	maxProp int
	// shared is one backing array that several nodes slice their PropertyOrder from (prefixes with spare capacity):
	// a Marshal that appends to a caller's slice would scribble over a sibling's order
	shared []string
}

func (g *orderGen) node(depth int) *jsonschema.Schema {
	r := g.c.R
	s := &jsonschema.Schema{}
	if depth > 0 && r.IntN(5) == 0 {
		s.Type = gen.Pick(r, gen.TypeNames)
		return s
	}
	n := r.IntN(9)
	if depth >= 2 {
		n = r.IntN(4)
	}
	pool := orderNames
	if depth < 2 && r.IntN(10) == 0 {
		// size stress: many properties (sort and set implementations switch algorithms at 12, 16, 32, 64 ... elements)
		n = gen.Pick(r, gen.WideSizes)
		pool = append([]string{}, orderNames...)
		for i := 0; len(pool) < n; i++ {
			pool = append(pool, fmt.Sprintf(gen.Pick(r, []string{"w%d", "W%d", "%d", "w%03d", "é%d"}), i))
		}
		pool = dedupNames(pool)
		n = min(n, len(pool))
	}
	if n > 0 || r.IntN(3) == 0 {
		s.Properties = map[string]*jsonschema.Schema{}
		perm := r.Perm(len(pool))
		for i := 0; i < n; i++ {
			name := pool[perm[i]]
			if depth < 2 && r.IntN(3) == 0 {
				s.Properties[name] = g.node(depth + 1)
			} else {
				s.Properties[name] = &jsonschema.Schema{Type: gen.Pick(r, gen.TypeNames)}
			}
		}
	}
	names := sortedKeys(s.Properties)
	if len(names) >= 3 && r.IntN(6) == 0 && !g.hasDup { // (a replaced child must not be the one that carries the duplicate list)
		// one sub-schema OBJECT as the value of two properties (addr := &Schema{...}; "billing": addr, "shipping": addr), with
		// other properties emitted between the two occurrences
		i, j := r.IntN(len(names)), r.IntN(len(names))
		if i != j {
			s.Properties[names[j]] = s.Properties[names[i]]
		}
	}
	switch mode := r.IntN(12); mode {
	case 0: // nil
	case 1:
		s.PropertyOrder = []string{}
	case 2, 3, 4: // permutation
		for _, i := range r.Perm(len(names)) {
			s.PropertyOrder = append(s.PropertyOrder, names[i])
		}
	case 5, 6: // subset
		for _, i := range r.Perm(len(names)) {
			if r.IntN(2) == 0 {
				s.PropertyOrder = append(s.PropertyOrder, names[i])
			}
		}
	case 7, 8: // superset / absent names interleaved
		for _, i := range r.Perm(len(names)) {
			if r.IntN(3) == 0 {
				s.PropertyOrder = append(s.PropertyOrder, "absent"+fmt.Sprint(i))
			}
			s.PropertyOrder = append(s.PropertyOrder, names[i])
		}
		s.PropertyOrder = append(s.PropertyOrder, "zz-absent")
	case 10: // a long list (>16 entries) over few properties: absent names padded in
		for i, idx := range r.Perm(len(names)) {
			for k := 0; k < 3+r.IntN(4); k++ {
				s.PropertyOrder = append(s.PropertyOrder, fmt.Sprintf("pad%d_%d", i, k))
			}
			s.PropertyOrder = append(s.PropertyOrder, names[idx])
		}
		for len(s.PropertyOrder) < 17+r.IntN(20) {
			s.PropertyOrder = append(s.PropertyOrder, fmt.Sprintf("tail%d", len(s.PropertyOrder)))
		}
	case 11: // a prefix of the shared backing array (spare capacity behind it belongs to other nodes' orders)
		if g.shared == nil {
			g.shared = make([]string, 0, 24)
			for _, i := range r.Perm(len(orderNames)) {
				g.shared = append(g.shared, orderNames[i])
			}
		}
		s.PropertyOrder = g.shared[:r.IntN(len(g.shared)+1)]
	case 9: // duplicates
		for _, i := range r.Perm(len(names)) {
			s.PropertyOrder = append(s.PropertyOrder, names[i])
		}
		if len(s.PropertyOrder) > 0 {
			s.PropertyOrder = append(s.PropertyOrder, s.PropertyOrder[r.IntN(len(s.PropertyOrder))])
		} else {
			s.PropertyOrder = []string{"x", "x"}
		}
		g.hasDup = true
	}
	if len(names) > g.maxProp {
		g.maxProp = len(names)
	}
	in, out := 0, 0
	for _, o := range s.PropertyOrder {
		if _, ok := s.Properties[o]; ok {
			in++
		} else {
			out++
		}
	}
	if len(names) >= 3 && !sort.StringsAreSorted(expectedOrder(s)) {
		g.keys = append(g.keys, fmt.Sprintf("n%d|in%d|out%d|d%d", len(names), in, out, depth))
	}
	// nested schemas elsewhere, each with its own order
	if depth < 2 {
		if r.IntN(4) == 0 {
			s.Items = g.node(depth + 1)
		}
		if r.IntN(5) == 0 {
			s.AllOf = []*jsonschema.Schema{g.node(depth + 1), g.node(depth + 1)}
		}
		if r.IntN(6) == 0 {
			s.Defs = map[string]*jsonschema.Schema{"d": g.node(depth + 1)}
		}
		if r.IntN(6) == 0 {
			s.AdditionalProperties = g.node(depth + 1)
		}
	}
	return s
}

func dedupNames(in []string) []string {
	seen := map[string]bool{}
	var out []string
	for _, n := range in {
		if !seen[n] {
			seen[n] = true
			out = append(out, n)
		}
	}
	return out
}

// expectedOrder computes the documented key order of "properties" from the Schema value.
func expectedOrder(s *jsonschema.Schema) []string {
	var out []string
	seen := map[string]bool{}
	for _, n := range s.PropertyOrder {
		if _, ok := s.Properties[n]; ok && !seen[n] {
			seen[n] = true
			out = append(out, n)
		}
	}
	var rest []string
	for n := range s.Properties {
		if !seen[n] {
			rest = append(rest, n)
		}
	}
	sort.Strings(rest)
	return append(out, rest...)
}

// checkOrder walks Schema and ordered JSON in parallel.
func checkOrder(s *jsonschema.Schema, j any, path string) string {
	if s == nil {
		return ""
	}
	obj, ok := j.(*jsonorder.Object)
	if !ok {
		return "" // boolean form: no properties
	}
	if s.Properties != nil {
		pj, ok := obj.Vals["properties"].(*jsonorder.Object)
		if !ok {
			return path + ": properties missing from the JSON"
		}
		want := expectedOrder(s)
		if strings.Join(pj.Keys, "\x00") != strings.Join(want, "\x00") {
			return fmt.Sprintf("%s/properties: key order %q, want %q (PropertyOrder %q)", path, pj.Keys, want, s.PropertyOrder)
		}
	}
	v := reflect.ValueOf(s).Elem()
	t := v.Type()
	for i := 0; i < t.NumField(); i++ {
		f := t.Field(i)
		kw := keywordOf(f)
		if kw == "" || !f.IsExported() {
			continue
		}
		jv, present := obj.Vals[kw]
		if !present {
			continue
		}
		switch x := v.Field(i).Interface().(type) {
		case *jsonschema.Schema:
			if p := checkOrder(x, jv, path+"/"+kw); p != "" {
				return p
			}
		case []*jsonschema.Schema:
			if arr, ok := jv.([]any); ok && len(arr) == len(x) {
				for k := range x {
					if p := checkOrder(x[k], arr[k], fmt.Sprintf("%s/%s/%d", path, kw, k)); p != "" {
						return p
					}
				}
			}
		case map[string]*jsonschema.Schema:
			if mo, ok := jv.(*jsonorder.Object); ok {
				for name, cs := range x {
					if p := checkOrder(cs, mo.Vals[name], path+"/"+kw+"/"+name); p != "" {
						return p
					}
				}
			}
		}
	}
	return ""
}

func (c19) Run(c *fw.Case) {
	if c.Idx%6 == 5 {
		failedCalls(c) // call history: failed calls before the case must leave nothing behind
	}
	g := &orderGen{c: c}
	s := g.node(0)
	if c.Idx%5 == 0 && !g.hasDup {
		// also a tree from the general reflective generator (all other fields), with orders
		o := &gen.StructOpts{Valid: true, MaxDepth: 2, NoRefs: true, PropOrder: true}
		s.Not = gen.SchemaStruct(c.R, o)
	}
	before := snap.Of(s)
	var first []byte
	for rep := 0; rep < 8; rep++ {
		data, err, ok := marshalSchema(c, s, "generated Schema tree with PropertyOrder")
		if !ok {
			return
		}
		c.Eval(1)
		if g.hasDup {
			if err == nil {
				c.Violation("Marshal accepted a PropertyOrder with duplicate entries", map[string]any{"marshaled": json.RawMessage(data)})
				return
			}
			c.Digest("dup-error")
			c.Nontrivial("dup")
			return
		}
		if err != nil {
			c.Violation("Marshal fails on a valid Schema: "+err.Error(), fmt.Sprintf("%+v", s))
			return
		}
		if rep == 0 {
			first = data
			c.Digest(string(data))
			continue
		}
		if !bytes.Equal(first, data) {
			c.Violation(fmt.Sprintf("two Marshal calls on the same value differ (repetition %d)", rep), map[string]any{"first": json.RawMessage(first), "other": json.RawMessage(data)})
			return
		}
	}
	if after := snap.Of(s); after != before {
		c.Violation("Marshal modified the Schema value it was given (PropertyOrder slices share a backing array in this tree)", map[string]any{"marshaled": json.RawMessage(first), "before": before, "after": after})
		return
	}
	j, err := jsonorder.Decode(first)
	if err != nil {
		c.Violation("Marshal produced JSON that does not parse cleanly: "+err.Error(), map[string]any{"marshaled": string(first)})
		return
	}
	if p := checkOrder(s, j, ""); p != "" {
		c.Violation("properties are not emitted in the documented order: "+p, map[string]any{"marshaled": json.RawMessage(first)})
		return
	}
	for _, k := range g.keys {
		c.Nontrivial(k)
	}
	if c.Idx%3000 == 0 {
		c.Sample(map[string]any{"marshaled": json.RawMessage(first), "root_property_order": s.PropertyOrder})
	}
}

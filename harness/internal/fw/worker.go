package fw

import (
	"crypto/sha256"
	"encoding/hex"
	"encoding/json"
	"fmt"
	"os"
	"runtime"
	"runtime/debug"
	"strings"
	"time"
)

// RunWorker executes cases [from,to) of p in this process and writes <prefix>.json.
// Before each case it appends "call <idx>" to <prefix>.log so that a process death
// identifies the case that caused it.
func RunWorker(p Property, tier Tier, seed uint64, from, to int, prefix string, replay bool) error {
	logf, err := os.OpenFile(prefix+".log", os.O_CREATE|os.O_WRONLY|os.O_APPEND, 0o644)
	if err != nil {
		return err
	}
	defer logf.Close()
	b := NewBatch(p.ID())
	b.From, b.To = from, to
	// safety net: a runaway case must not eat the machine. Exceeding the cap ends this process
	// (the driver then re-runs the case in isolation and decides).
	go func() {
		var ms runtime.MemStats
		for {
			time.Sleep(250 * time.Millisecond)
			runtime.ReadMemStats(&ms)
			if ms.Sys > memCapBytes() {
				fmt.Fprintf(os.Stderr, "MEMORY-CAP exceeded: %d MB in use, ending worker\n", ms.Sys>>20)
				os.Exit(97)
			}
		}
	}()
	_, wantDigests := p.(Repeater)
	for idx := from; idx < to; idx++ {
		fmt.Fprintf(logf, "call %d\n", idx)
		c := NewCase(p.ID(), seed, tier, idx, b)
		c.Replay = replay
		c.Logf = logf
		if lc, ok := p.(CallLogger); ok {
			c.LogCalls = lc.LogCalls()
		}
		runCase(p, c)
		if wantDigests {
			sum := sha256.Sum256([]byte(c.digest.String()))
			b.Digests = append(b.Digests, hex.EncodeToString(sum[:8]))
		}
	}
	fmt.Fprintf(logf, "done\n")
	b.Done = true
	b.seal()
	data, err := json.Marshal(b)
	if err != nil {
		return err
	}
	return os.WriteFile(prefix+".json", data, 0o644)
}

func runCase(p Property, c *Case) {
	defer func() {
		if r := recover(); r != nil {
			stack := string(debug.Stack())
			inLib := strings.Contains(stack, "jsonschema-go/jsonschema.") || strings.Contains(stack, "/repo/jsonschema/")
			if _, ok := r.(stepsExceeded); ok {
				c.Violation("step budget exceeded (unguarded call)", map[string]any{"stack": trimStack(stack)})
				return
			}
			if inLib {
				c.Violation(fmt.Sprintf("panic escaping from the library: %v", r), map[string]any{"panic": fmt.Sprint(r), "stack": trimStack(stack)})
			} else {
				// A bug in the harness itself: never a verdict about the library.
				c.B.Counters["harness_panics"]++
				c.Inconclusive("harness panic: " + fmt.Sprint(r))
				if len(c.B.Samples) < 8 {
					c.B.Samples = append(c.B.Samples, map[string]any{"harness_panic": fmt.Sprint(r), "case": c.Idx, "stack": trimStack(stack)})
				}
			}
		}
	}()
	p.Run(c)
}

func memCapBytes() uint64 {
	if os.Getenv("VERIF_ISOLATED") != "" {
		return 6 << 30
	}
	return 3 << 30
}

// Package fw is the plumbing shared by all property monitors: seeded case
// streams, the per-batch result record written by worker processes, the
// recover/step-budget wrapper around every library call, and the driver that
// fans batches out to child processes and merges what they observed.
package fw

import (
	"encoding/json"
	"fmt"
	"hash/fnv"
	"io"
	"math/rand/v2"
	"os"
	"runtime/debug"
	"sort"
	"strings"
)

type Tier string

const (
	Quick    Tier = "quick"
	Thorough Tier = "thorough"
)

// Property is one monitor.
type Property interface {
	ID() string
	// Cases is the number of seed-determined cases of the tier (a constant, never a duration).
	Cases(t Tier) int
	// Run executes case c.Idx, reporting through c.
	Run(c *Case)
	// Rule describes how cases are generated and what counts as distinct and non-trivial.
	Rule() string
	Assumptions() []string
}

// Optional interfaces.
type (
	// Finalizer runs in the driver after all batches were merged (cross-process checks, thresholds).
	Finalizer interface{ Finalize(a *Agg, t Tier) }
	// KnownRunner re-executes a pinned known finding; it returns whether it still fails.
	KnownRunner interface {
		RunKnown(id string) (stillFails bool, detail string, err error)
	}
	// BatchSizer overrides the default batch size.
	BatchSizer interface{ BatchSize(t Tier) int }
	// WorkerEnv lets a property set environment variables for a batch (index b).
	WorkerEnv interface {
		Env(t Tier, batch int) []string
	}
	// Racer asks for the race-detector flavour of the worker.
	Racer interface{ Race(t Tier) bool }
	// CallLogger asks for a call record (with the full input) to be logged before every guarded call.
	CallLogger interface{ LogCalls() bool }
	// Repeater asks for every batch to be executed in P fresh processes whose digest vectors must agree.
	Repeater interface{ Processes(t Tier) int }
)

// Violation is one refuting observation.
type Violation struct {
	Case    int             `json:"case"`
	What    string          `json:"what"`
	Witness json.RawMessage `json:"witness"`
}

// BatchResult is what a worker process observed on cases [From,To).
type BatchResult struct {
	Prop         string            `json:"prop"`
	From, To     int               `json:"-"`
	Evaluations  int64             `json:"evaluations"`
	Nontrivial   []uint64          `json:"nontrivial"` // hashes of distinct non-trivial keys
	Counters     map[string]int64  `json:"counters"`
	Samples      []any             `json:"samples"`
	Violations   []Violation       `json:"violations"`
	Inconclusive map[string]int64  `json:"inconclusive"`
	Digests      []string          `json:"digests,omitempty"` // per-case digest (cross-process determinism)
	Audit        []json.RawMessage `json:"audit,omitempty"`   // sampled (input, model verdict) records for the python audit
	Done         bool              `json:"done"`
	MaxSteps     int64             `json:"max_steps"`

	nt map[uint64]struct{}
}

func NewBatch(prop string) *BatchResult {
	return &BatchResult{Prop: prop, Counters: map[string]int64{}, Inconclusive: map[string]int64{}, nt: map[uint64]struct{}{}}
}

func (b *BatchResult) seal() {
	b.Nontrivial = b.Nontrivial[:0]
	for h := range b.nt {
		b.Nontrivial = append(b.Nontrivial, h)
	}
	sort.Slice(b.Nontrivial, func(i, j int) bool { return b.Nontrivial[i] < b.Nontrivial[j] })
}

// Case is the context of one case.
type Case struct {
	Prop string
	Seed uint64
	Tier Tier
	Idx  int
	R    *rand.Rand
	B    *BatchResult
	// Replay is true when a single case is re-executed from a witness file.
	Replay bool
	// LogCalls makes CallChecked append a call record (operation + full input) to the batch log BEFORE
	// the call, so that a process death (fatal error, stack overflow) identifies the exact input.
	LogCalls bool
	Logf     io.Writer
	digest   strings.Builder
}

func hash64(parts ...string) uint64 {
	h := fnv.New64a()
	for _, p := range parts {
		h.Write([]byte(p))
		h.Write([]byte{0})
	}
	return h.Sum64()
}

func NewCase(prop string, seed uint64, tier Tier, idx int, b *BatchResult) *Case {
	s1 := hash64(prop, fmt.Sprint(seed), fmt.Sprint(idx))
	s2 := hash64("stream2", prop, fmt.Sprint(seed), fmt.Sprint(idx))
	return &Case{Prop: prop, Seed: seed, Tier: tier, Idx: idx, R: rand.New(rand.NewPCG(s1, s2)), B: b}
}

// SubRand returns an independent deterministic stream for a labelled sub-purpose of the case.
func (c *Case) SubRand(label string) *rand.Rand {
	return rand.New(rand.NewPCG(hash64(c.Prop, fmt.Sprint(c.Seed), fmt.Sprint(c.Idx), label), 77))
}

func (c *Case) Eval(n int) { c.B.Evaluations += int64(n) }

// Nontrivial records a distinct non-trivial case key.
func (c *Case) Nontrivial(key string) { c.B.nt[hash64(key)] = struct{}{} }

func (c *Case) Count(name string, n int) { c.B.Counters[name] += int64(n) }

// Sample keeps up to 6 samples per batch (the driver keeps a handful overall).
func (c *Case) Sample(v any) {
	if len(c.B.Samples) < 6 {
		c.B.Samples = append(c.B.Samples, v)
	}
}

func (c *Case) Inconclusive(reason string) { c.B.Inconclusive[reason]++ }

// AuditSample keeps a bounded sample of (input, model verdict) records; the driver hands them to
// oracle/audit.py (python jsonschema) in the thorough tier to audit the reference model.
func (c *Case) AuditSample(v any) {
	limit := 60
	if c.Tier != Thorough && os.Getenv("VERIF_AUDIT") == "" {
		limit = 8 // quick tier: a small sample (a second or two of python)
	}
	if len(c.B.Audit) >= limit {
		return
	}
	if data, err := json.Marshal(v); err == nil && len(data) < 20000 {
		c.B.Audit = append(c.B.Audit, data)
	}
}

// Violation records a refuting observation with a self-contained witness.
func (c *Case) Violation(what string, witness any) {
	w, err := json.Marshal(witness)
	if err != nil {
		w, _ = json.Marshal(fmt.Sprintf("%+v", witness))
	}
	if len(c.B.Violations) < 50 {
		c.B.Violations = append(c.B.Violations, Violation{Case: c.Idx, What: what, Witness: w})
	}
	c.B.Counters["violations_total"]++
}

// Digest appends to the case's digest (compared across processes by Repeater properties).
func (c *Case) Digest(parts ...string) {
	for _, p := range parts {
		c.digest.WriteString(p)
		c.digest.WriteByte(0)
	}
}

// Outcome of a guarded library call.
type Outcome struct {
	Panicked bool
	PanicVal string
	Stack    string
	InLib    bool // a library frame is on the panicking stack
	Steps    int64
	Exceeded bool // step budget exceeded (sentinel)
}

type stepsExceeded struct{}

// Call runs f (which calls into the library) under recover and the logical step budget.
func Call(f func()) (o Outcome) {
	resetSteps()
	defer func() {
		o.Steps = steps()
		if r := recover(); r != nil {
			if _, ok := r.(stepsExceeded); ok {
				o.Exceeded = true
				return
			}
			o.Panicked = true
			o.PanicVal = fmt.Sprint(r)
			o.Stack = string(debug.Stack())
			o.InLib = strings.Contains(o.Stack, "jsonschema-go/jsonschema.") || strings.Contains(o.Stack, "/repo/jsonschema/")
		}
	}()
	f()
	return
}

// CallChecked is Call plus the standard handling: a library panic or a step overrun is a violation.
// It returns false when the call did not complete normally.
func (c *Case) CallChecked(op string, input any, f func()) bool {
	if c.LogCalls && c.Logf != nil {
		data, _ := json.Marshal(map[string]any{"op": op, "input": input})
		if len(data) > 20000 {
			data = append(data[:20000], []byte("...(truncated)")...)
		}
		fmt.Fprintf(c.Logf, "input %d %s\n", c.Idx, data)
	}
	o := Call(f)
	if o.Steps > c.B.MaxSteps {
		c.B.MaxSteps = o.Steps
	}
	if o.Exceeded {
		c.Violation("step budget exceeded in "+op, map[string]any{"op": op, "input": input, "steps": o.Steps, "budget": StepBudget()})
		return false
	}
	if o.Panicked {
		c.Violation("panic in "+op+": "+o.PanicVal, map[string]any{"op": op, "input": input, "panic": o.PanicVal, "stack": trimStack(o.Stack), "in_library": o.InLib})
		return false
	}
	return true
}

func trimStack(s string) string {
	lines := strings.Split(s, "\n")
	if len(lines) > 40 {
		lines = lines[:40]
	}
	return strings.Join(lines, "\n")
}

// JSON helpers.
func MustJSON(v any) string {
	b, err := json.Marshal(v)
	if err != nil {
		return fmt.Sprintf("!marshal error: %v", err)
	}
	return string(b)
}

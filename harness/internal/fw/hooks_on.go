//go:build verif

package fw

import (
	"sync/atomic"

	"github.com/google/jsonschema-go/jsonschema"
)

// HooksAvailable reports whether the library was built with its verif hooks.
const HooksAvailable = true

var (
	stepCount  atomic.Int64
	stepBudget atomic.Int64
	extraHook  atomic.Pointer[func(string)]
)

// resolveCount bounds the number of documents resolved by one call separately: every one of them
// unmarshals a whole document, so unbounded recursion through the loader eats memory long before
// the general budget is reached.
var resolveCount atomic.Int64

const resolveBudget = 3000

func init() {
	stepBudget.Store(100_000) // 100k validate frames ~ 280 MB of stack: below the 512 MB the runtime can actually grow to
	f := func(point string) {
		if g := extraHook.Load(); g != nil {
			(*g)(point)
		}
		if point == "resolve" {
			if n := resolveCount.Add(1); n > resolveBudget && stepBudget.Load() < 1<<61 {
				resolveCount.Store(0)
				panic(stepsExceeded{})
			}
		}
		if n := stepCount.Add(1); n > stepBudget.Load() {
			stepCount.Store(0)
			panic(stepsExceeded{})
		}
	}
	hookFn = &f
	jsonschema.VerifHook.Store(&f)
}

var hookFn *func(string)

// SetHookEnabled installs or removes the harness's hook function altogether. With the hook removed the
// library runs without ANY harness synchronisation: every atomic counter in a hook creates happens-before
// edges between goroutines, which hides data races from the race detector (found with seeded/C13).
func SetHookEnabled(on bool) {
	if on {
		jsonschema.VerifHook.Store(hookFn)
	} else {
		jsonschema.VerifHook.Store(nil)
	}
}

func resetSteps()           { stepCount.Store(0); resolveCount.Store(0) }
func steps() int64          { return stepCount.Load() }
func StepBudget() int64     { return stepBudget.Load() }
func SetStepBudget(n int64) { stepBudget.Store(n) }

// SetExtraHook installs an additional observer for hook points (nil to remove).
func SetExtraHook(f func(string)) {
	if f == nil {
		extraHook.Store(nil)
		return
	}
	extraHook.Store(&f)
}

// DisableStepBudget turns the budget off (concurrent workloads share the counter).
func DisableStepBudget() { stepBudget.Store(1 << 62) }

//go:build !verif

package fw

// HooksAvailable reports whether the library was built with its verif hooks.
const HooksAvailable = false

func resetSteps()                 {}
func steps() int64                { return 0 }
func StepBudget() int64           { return 0 }
func SetStepBudget(n int64)       {}
func SetExtraHook(f func(string)) {}
func DisableStepBudget()          {}
func SetHookEnabled(on bool)      {}

package fw

import (
	"bufio"
	"context"
	"encoding/json"
	"fmt"
	"os"
	"os/exec"
	"path/filepath"
	"regexp"
	"sort"
	"strconv"
	"strings"
	"sync"
	"syscall"
	"time"
)

// Agg is the merged observation of all batches.
type Agg struct {
	Evaluations  int64
	Nontrivial   map[uint64]struct{}
	Counters     map[string]int64
	Samples      []any
	Violations   []Violation
	Inconclusive map[string]int64
	MaxSteps     int64
	RaceBlocks   []string // de-duplicated race report blocks involving the library
	RaceCases    []int    // for each block: the first case index of the worker that reported it
	RaceRaw      int      // raw number of WARNING: DATA RACE blocks
	Extra        map[string]any
	Audit        []json.RawMessage
	mu           sync.Mutex
}

func (a *Agg) AddViolation(caseIdx int, what string, witness any) {
	w, _ := json.Marshal(witness)
	a.mu.Lock()
	defer a.mu.Unlock()
	a.Violations = append(a.Violations, Violation{Case: caseIdx, What: what, Witness: w})
}

func (a *Agg) AddInconclusive(reason string) {
	a.mu.Lock()
	defer a.mu.Unlock()
	a.Inconclusive[reason]++
}

func (a *Agg) merge(b *BatchResult) {
	a.mu.Lock()
	defer a.mu.Unlock()
	a.Evaluations += b.Evaluations
	for _, h := range b.Nontrivial {
		a.Nontrivial[h] = struct{}{}
	}
	for k, v := range b.Counters {
		a.Counters[k] += v
	}
	for k, v := range b.Inconclusive {
		a.Inconclusive[k] += v
	}
	for _, s := range b.Samples {
		if len(a.Samples) < 8 {
			a.Samples = append(a.Samples, s)
		} else if m, ok := s.(map[string]any); ok && m["harness_panic"] != nil && len(a.Samples) < 12 {
			a.Samples = append(a.Samples, s)
		}
	}
	a.Violations = append(a.Violations, b.Violations...)
	if b.MaxSteps > a.MaxSteps {
		a.MaxSteps = b.MaxSteps
	}
	if len(a.Audit) < 6000 {
		a.Audit = append(a.Audit, b.Audit...)
	}
}

type DriveOpts struct {
	Tier     Tier
	Seed     uint64
	Exe      string // worker binary (hooks on, or fallback)
	RaceExe  string // race flavour ("" if not built)
	VerifDir string // /verif
	WorkDir  string // scratch for batch files (under .build)
	Replay   string // witness path; if set, only that case is re-executed
	Parallel int
	HooksOn  bool
}

type knownLine struct{ id, text string }

func readKnown(dir, prop string) (known []knownLine) {
	f, err := os.Open(filepath.Join(dir, "KNOWN_FINDINGS.txt"))
	if err != nil {
		return nil
	}
	defer f.Close()
	sc := bufio.NewScanner(f)
	for sc.Scan() {
		line := strings.TrimSpace(sc.Text())
		if !strings.HasPrefix(line, "known:") {
			continue
		}
		fields := strings.Fields(line)
		var p, id string
		for _, fl := range fields {
			if v, ok := strings.CutPrefix(fl, "property="); ok {
				p = v
			}
			if v, ok := strings.CutPrefix(fl, "id="); ok {
				id = v
			}
		}
		if p == prop && id != "" {
			i := strings.Index(line, "id="+id)
			known = append(known, knownLine{id, strings.TrimSpace(line[i+len("id="+id):])})
		}
	}
	return
}

type batchSpec struct {
	n        int
	from, to int
}

// Drive runs the whole check and returns the process exit code.
func Drive(p Property, o DriveOpts) int {
	start := time.Now()
	agg := &Agg{Nontrivial: map[uint64]struct{}{}, Counters: map[string]int64{}, Inconclusive: map[string]int64{}, Extra: map[string]any{}}
	if o.Parallel <= 0 {
		o.Parallel = 16
	}
	os.MkdirAll(o.WorkDir, 0o755)
	os.MkdirAll(filepath.Join(o.VerifDir, "evidence"), 0o755)

	if o.Replay != "" {
		return driveReplay(p, o)
	}

	// 1. pinned known findings
	var knownOut []string
	resolvedKnown := []string{}
	if _, ok := p.(KnownRunner); ok {
		for _, k := range readKnown(o.VerifDir, p.ID()) {
			out, err := exec.Command(o.Exe, "known", p.ID(), k.id).CombinedOutput()
			s := strings.TrimSpace(string(out))
			switch {
			case strings.Contains(s, "STILL-FAILS"):
				line := fmt.Sprintf("KNOWN-FINDING: property=%s id=%s %s", p.ID(), k.id, k.text)
				fmt.Println(line)
				knownOut = append(knownOut, line)
			case strings.Contains(s, "NO-LONGER-FAILS"):
				resolvedKnown = append(resolvedKnown, k.id)
			default:
				// the pinned witness killed the child (e.g. a panic) or could not run: still a failure of that witness
				_ = err
				line := fmt.Sprintf("KNOWN-FINDING: property=%s id=%s %s", p.ID(), k.id, k.text)
				fmt.Println(line)
				knownOut = append(knownOut, line+" [child output: "+lastLines(s, 3)+"]")
			}
		}
	}

	// 2. batches
	n := p.Cases(o.Tier)
	bs := n / 96
	if bz, ok := p.(BatchSizer); ok {
		bs = bz.BatchSize(o.Tier)
	}
	if bs < 1 {
		bs = 1
	}
	var specs []batchSpec
	for from, i := 0, 0; from < n; from, i = from+bs, i+1 {
		specs = append(specs, batchSpec{i, from, min(from+bs, n)})
	}
	procs := 1
	if r, ok := p.(Repeater); ok {
		procs = r.Processes(o.Tier)
	}
	race := false
	if r, ok := p.(Racer); ok && r.Race(o.Tier) && o.RaceExe != "" {
		race = true
	}
	sem := make(chan struct{}, o.Parallel)
	var wg sync.WaitGroup
	for _, sp := range specs {
		wg.Add(1)
		sem <- struct{}{}
		go func(sp batchSpec) {
			defer wg.Done()
			defer func() { <-sem }()
			var first *BatchResult
			for pr := 0; pr < procs; pr++ {
				b := runBatch(p, o, agg, sp, pr, race)
				if b == nil {
					continue
				}
				if pr == 0 {
					first = b
					agg.merge(b)
					continue
				}
				// repeated processes: only digests are compared (observations already merged once)
				agg.mu.Lock()
				agg.Counters["cross_process_batches_compared"]++
				agg.mu.Unlock()
				if first != nil {
					for i := range first.Digests {
						if i < len(b.Digests) && first.Digests[i] != b.Digests[i] {
							agg.AddViolation(sp.from+i, "result differs between two processes (different hash seeds / map orders)",
								map[string]any{"case": sp.from + i, "digest_process_0": first.Digests[i], fmt.Sprintf("digest_process_%d", pr): b.Digests[i]})
						}
					}
				}
			}
		}(sp)
	}
	wg.Wait()

	if race {
		collectRace(o.WorkDir, agg)
	}
	if f, ok := p.(Finalizer); ok {
		f.Finalize(agg, o.Tier)
	}
	runAudit(o, agg)

	// 3. verdict + evidence
	sort.Slice(agg.Violations, func(i, j int) bool { return agg.Violations[i].Case < agg.Violations[j].Case })
	os.MkdirAll(filepath.Join(o.VerifDir, "replay"), 0o755)
	printed := 0
	seenCase := map[int]bool{}
	for _, v := range agg.Violations {
		if printed >= 10 {
			break
		}
		if seenCase[v.Case] {
			continue
		}
		seenCase[v.Case] = true
		path := filepath.Join(o.VerifDir, "replay", fmt.Sprintf("%s-%d-%d.json", p.ID(), o.Seed, v.Case))
		w := map[string]any{"property": p.ID(), "seed": o.Seed, "tier": o.Tier, "case": v.Case, "what": v.What, "witness": v.Witness}
		data, _ := json.MarshalIndent(w, "", " ")
		os.WriteFile(path, data, 0o644)
		fmt.Printf("VIOLATION property=%s replay=%s\n", p.ID(), path)
		fmt.Printf("  %s\n", v.What)
		printed++
	}
	cov := map[string]any{
		"evaluations":         agg.Evaluations,
		"distinct_nontrivial": len(agg.Nontrivial),
		"rule":                p.Rule(),
		"samples":             agg.Samples,
		"cases":               n,
		"batches":             len(specs),
		"processes_per_batch": procs,
		"counters":            agg.Counters,
		"inconclusive":        agg.Inconclusive,
		"hooks_available":     o.HooksOn,
		"max_steps_per_call":  agg.MaxSteps,
		"known_findings":      knownOut,
		"resolved_known":      resolvedKnown,
		"exhaustive":          false,
	}
	if race {
		cov["race_detector"] = map[string]any{"enabled": true, "raw_report_blocks": agg.RaceRaw, "distinct_library_blocks": len(agg.RaceBlocks)}
	}
	for k, v := range agg.Extra {
		cov[k] = v
	}
	if len(agg.Samples) == 0 {
		cov["samples"] = []any{"(no sample recorded)"}
	}
	ev := map[string]any{
		"property_id": p.ID(),
		"tier":        o.Tier,
		"seed":        o.Seed,
		"level":       "exploration",
		"coverage":    cov,
		"assumptions": p.Assumptions(),
		"wall_s":      time.Since(start).Seconds(),
		"violations":  len(agg.Violations),
	}
	data, _ := json.MarshalIndent(ev, "", " ")
	os.WriteFile(filepath.Join(o.VerifDir, "evidence", p.ID()+".json"), data, 0o644)

	verdict := "held"
	if len(agg.Violations) > 0 {
		verdict = "violated"
	} else if len(agg.Inconclusive) > 0 {
		verdict = "held (with inconclusive parts)"
	}
	fmt.Printf("%s %s seed=%d: %s; cases=%d evaluations=%d distinct_nontrivial=%d violations=%d inconclusive=%v wall=%.1fs\n",
		p.ID(), o.Tier, o.Seed, verdict, n, agg.Evaluations, len(agg.Nontrivial), len(agg.Violations), agg.Inconclusive, time.Since(start).Seconds())
	if agg.Counters["harness_panics"] > 0 {
		fmt.Printf("BROKEN-CHECK: %d harness panics (see evidence samples)\n", agg.Counters["harness_panics"])
		return 2
	}
	if len(agg.Violations) > 0 {
		return 1
	}
	if agg.Evaluations == 0 || len(agg.Nontrivial) < 2 {
		fmt.Println("BROKEN-CHECK: the run observed nothing")
		return 2
	}
	return 0
}

func lastLines(s string, n int) string {
	lines := strings.Split(strings.TrimSpace(s), "\n")
	if len(lines) > n {
		lines = lines[len(lines)-n:]
	}
	return strings.Join(lines, " | ")
}

func watchdog(t Tier) time.Duration {
	if s := os.Getenv("VERIF_WATCHDOG_S"); s != "" {
		if n, err := strconv.Atoi(s); err == nil {
			return time.Duration(n) * time.Second
		}
	}
	if t == Thorough {
		return 600 * time.Second
	}
	return 150 * time.Second
}

// spawn runs one worker process over [from,to); returns the batch result (nil if the process
// died or hung), whether the watchdog fired, and the tail of its output.
func spawn(p Property, o DriveOpts, exe string, from, to int, prefix string, env []string, wd time.Duration) (*BatchResult, bool, string) {
	os.Remove(prefix + ".json")
	os.Remove(prefix + ".log")
	ctx, cancel := context.WithTimeout(context.Background(), wd)
	defer cancel()
	cmd := exec.CommandContext(ctx, exe, "worker", p.ID(), string(o.Tier), strconv.FormatUint(o.Seed, 10), strconv.Itoa(from), strconv.Itoa(to), prefix)
	cmd.Env = append(os.Environ(), env...)
	cmd.Cancel = func() error { return cmd.Process.Signal(syscall.SIGQUIT) } // goroutine dump lands in the output file
	cmd.WaitDelay = 10 * time.Second
	outf, _ := os.Create(prefix + ".out")
	cmd.Stdout, cmd.Stderr = outf, outf
	err := cmd.Run()
	outf.Close()
	timedOut := ctx.Err() == context.DeadlineExceeded
	tail := ""
	if data, e := os.ReadFile(prefix + ".out"); e == nil {
		s := string(data)
		if len(s) > 6000 {
			s = s[:3000] + "\n...\n" + s[len(s)-3000:]
		}
		tail = s
	}
	data, rerr := os.ReadFile(prefix + ".json")
	if rerr != nil || err != nil {
		return nil, timedOut, tail
	}
	var b BatchResult
	if json.Unmarshal(data, &b) != nil || !b.Done {
		return nil, timedOut, tail
	}
	b.From, b.To = from, to
	return &b, false, tail
}

// lastInput returns the last call record (operation + input) logged for case idx.
func lastInput(prefix string, idx int) string {
	data, err := os.ReadFile(prefix + ".log")
	if err != nil {
		return ""
	}
	last := ""
	want := fmt.Sprintf("input %d ", idx)
	for _, l := range strings.Split(string(data), "\n") {
		if v, ok := strings.CutPrefix(l, want); ok {
			last = v
		}
	}
	return last
}

func lastCall(prefix string) int {
	data, err := os.ReadFile(prefix + ".log")
	if err != nil {
		return -1
	}
	last := -1
	for _, l := range strings.Split(string(data), "\n") {
		if v, ok := strings.CutPrefix(l, "call "); ok {
			if n, e := strconv.Atoi(v); e == nil {
				last = n
			}
		}
	}
	return last
}

func runBatch(p Property, o DriveOpts, agg *Agg, sp batchSpec, proc int, race bool) *BatchResult {
	exe := o.Exe
	var env []string
	prefix := filepath.Join(o.WorkDir, fmt.Sprintf("b%05d-p%d", sp.n, proc))
	if race {
		exe = o.RaceExe
		env = append(env, "GORACE=halt_on_error=0 exitcode=0 log_path="+prefix+".race")
	}
	if we, ok := p.(WorkerEnv); ok {
		env = append(env, we.Env(o.Tier, sp.n)...)
	}
	wd := watchdog(o.Tier)
	from := sp.from
	merged := NewBatch(p.ID())
	merged.From, merged.To = sp.from, sp.to
	parts := 0
	for from < sp.to {
		b, timedOut, tail := spawn(p, o, exe, from, sp.to, fmt.Sprintf("%s-f%d", prefix, from), env, wd)
		if b != nil {
			mergeBatch(merged, b)
			parts++
			break
		}
		// the process died or hung: which case?
		idx := lastCall(fmt.Sprintf("%s-f%d", prefix, from))
		if idx < from {
			agg.AddInconclusive("worker died before its first case (harness/environment problem): " + lastLines(tail, 2))
			return nil
		}
		// cases [from,idx) completed but their observations are lost with the process: redo them (cheap, deterministic)
		if idx > from {
			if b0, _, _ := spawn(p, o, exe, from, idx, fmt.Sprintf("%s-f%d-redo", prefix, from), env, wd); b0 != nil {
				mergeBatch(merged, b0)
			}
		}
		// isolated re-run of the suspect case with 10x the time
		b1, timedOut1, tail1 := spawn(p, o, exe, idx, idx+1, fmt.Sprintf("%s-iso%d", prefix, idx), append(env, "VERIF_ISOLATED=1"), 3*wd)
		switch {
		case b1 != nil:
			mergeBatch(merged, b1)
			agg.AddInconclusive(fmt.Sprintf("worker died/hung in a batch (timedOut=%v) but case %d completes in isolation", timedOut, idx))
		case timedOut1:
			if p.ID() == "C10" || strings.Contains(tail1, "jsonschema-go/jsonschema.") {
				agg.AddViolation(idx, "call does not return (watchdog fired twice; goroutine dump shows library frames)", map[string]any{"case": idx, "output_tail": tail1})
			} else {
				agg.AddInconclusive(fmt.Sprintf("case %d hangs outside the library", idx))
			}
		case strings.Contains(tail1, "MEMORY-CAP exceeded"):
			if p.ID() == "C10" {
				agg.AddViolation(idx, "call consumes memory without bound (memory cap hit twice, also in isolation): unbounded recursion or allocation", map[string]any{"case": idx, "last_call_logged_before_death": json.RawMessage(orNull(lastInput(fmt.Sprintf("%s-iso%d", prefix, idx), idx))), "output_tail": tail1})
			} else {
				// outside C10 the workload itself (generated values, mutant sets) is the usual suspect: not a verdict
				agg.AddInconclusive(fmt.Sprintf("case %d exceeds the memory cap also in isolation (workload size?)", idx))
			}
		default:
			agg.AddViolation(idx, "worker process died while executing this case (fatal error / unrecoverable panic): "+firstLine(tail1), map[string]any{"case": idx, "last_call_logged_before_death": json.RawMessage(orNull(lastInput(fmt.Sprintf("%s-iso%d", prefix, idx), idx))), "output_head": head(tail1, 1500)})
		}
		from = idx + 1
	}
	merged.Done = true
	merged.seal()
	return merged
}

func mergeBatch(dst, b *BatchResult) {
	dst.Evaluations += b.Evaluations
	for _, h := range b.Nontrivial {
		dst.nt[h] = struct{}{}
	}
	for k, v := range b.Counters {
		dst.Counters[k] += v
	}
	for k, v := range b.Inconclusive {
		dst.Inconclusive[k] += v
	}
	dst.Samples = append(dst.Samples, b.Samples...)
	dst.Violations = append(dst.Violations, b.Violations...)
	dst.Digests = append(dst.Digests, b.Digests...)
	dst.Audit = append(dst.Audit, b.Audit...)
	if b.MaxSteps > dst.MaxSteps {
		dst.MaxSteps = b.MaxSteps
	}
}

var raceSep = regexp.MustCompile(`(?m)^==================$`)
var lineNo = regexp.MustCompile(`:\d+ \+0x[0-9a-f]+|:\d+`)
var addr = regexp.MustCompile(`0x[0-9a-f]+`)

// collectRace reads the race-detector logs, counts WARNING: DATA RACE blocks and keeps the
// distinct ones that involve a library frame (de-duplicated by line-stripped stack text).
func collectRace(dir string, agg *Agg) {
	files, _ := filepath.Glob(filepath.Join(dir, "*.race.*"))
	seen := map[string]bool{}
	for _, f := range files {
		data, err := os.ReadFile(f)
		if err != nil {
			continue
		}
		for _, blk := range raceSep.Split(string(data), -1) {
			if !strings.Contains(blk, "WARNING: DATA RACE") {
				continue
			}
			agg.RaceRaw++
			if !strings.Contains(blk, "jsonschema-go/jsonschema.") {
				agg.Counters["race_blocks_outside_library"]++
				continue
			}
			key := addr.ReplaceAllString(lineNo.ReplaceAllString(blk, ""), "")
			key = regexp.MustCompile(`goroutine \d+`).ReplaceAllString(key, "goroutine N")
			key = regexp.MustCompile(`Goroutine \d+`).ReplaceAllString(key, "Goroutine N")
			if !seen[key] {
				seen[key] = true
				if len(blk) > 5000 {
					blk = blk[:5000]
				}
				agg.RaceBlocks = append(agg.RaceBlocks, blk)
				from := 0
				if m := regexp.MustCompile(`-f(\d+)(-redo|)\.race`).FindStringSubmatch(f); m != nil {
					from, _ = strconv.Atoi(m[1])
				} else if m := regexp.MustCompile(`-iso(\d+)\.race`).FindStringSubmatch(f); m != nil {
					from, _ = strconv.Atoi(m[1])
				}
				agg.RaceCases = append(agg.RaceCases, from)
			}
		}
	}
}

func driveReplay(p Property, o DriveOpts) int {
	data, err := os.ReadFile(o.Replay)
	if err != nil {
		fmt.Println("cannot read replay file:", err)
		return 2
	}
	var w struct {
		Property string `json:"property"`
		Seed     uint64 `json:"seed"`
		Tier     Tier   `json:"tier"`
		Case     int    `json:"case"`
	}
	if err := json.Unmarshal(data, &w); err != nil || w.Property != p.ID() {
		fmt.Println("bad replay file")
		return 2
	}
	o.Seed, o.Tier = w.Seed, w.Tier
	prefix := filepath.Join(o.WorkDir, "replay")
	exe := o.Exe
	var env []string
	if r, ok := p.(Racer); ok && r.Race(o.Tier) && o.RaceExe != "" {
		exe = o.RaceExe
		env = append(env, "GORACE=halt_on_error=0 exitcode=0 log_path="+prefix+".race")
	}
	env = append(env, "VERIF_REPLAY=1")
	b, timedOut, tail := spawn(p, o, exe, w.Case, w.Case+1, prefix, env, 3*watchdog(o.Tier))
	if b == nil {
		fmt.Printf("replay: worker died or hung (timedOut=%v)\n%s\n", timedOut, tail)
		fmt.Printf("VIOLATION property=%s replay=%s\n", p.ID(), o.Replay)
		return 1
	}
	agg := &Agg{Nontrivial: map[uint64]struct{}{}, Counters: map[string]int64{}, Inconclusive: map[string]int64{}, Extra: map[string]any{}}
	agg.merge(b)
	if exe == o.RaceExe {
		collectRace(o.WorkDir, agg)
		if f, ok := p.(Finalizer); ok {
			f.Finalize(agg, o.Tier)
		}
	}
	if len(agg.Violations) > 0 {
		for _, v := range agg.Violations {
			fmt.Printf("replay: %s\n%s\n", v.What, string(v.Witness))
		}
		fmt.Printf("VIOLATION property=%s replay=%s\n", p.ID(), o.Replay)
		return 1
	}
	fmt.Printf("replay: case %d of %s no longer violates\n", w.Case, p.ID())
	return 0
}

func firstLine(s string) string {
	for _, l := range strings.Split(s, "\n") {
		if strings.Contains(l, "fatal error") || strings.Contains(l, "panic:") {
			return strings.TrimSpace(l)
		}
	}
	return ""
}

func head(s string, n int) string {
	if len(s) > n {
		return s[:n]
	}
	return s
}

func orNull(s string) string {
	if s == "" || !json.Valid([]byte(s)) {
		return "null"
	}
	return s
}

// runAudit hands the sampled (input, model verdict) records to oracle/audit.py (python jsonschema).
// A disagreement never decides a property: it is reported as inconclusive (oracle dispute).
func runAudit(o DriveOpts, agg *Agg) {
	if len(agg.Audit) == 0 {
		return
	}
	script := filepath.Join(o.VerifDir, "oracle", "audit.py")
	py, err := exec.LookPath("python3-vt")
	if err != nil {
		agg.Extra["oracle_audit"] = map[string]any{"skipped": "python3-vt not available"}
		return
	}
	path := filepath.Join(o.WorkDir, "audit.jsonl")
	var buf strings.Builder
	for _, r := range agg.Audit {
		buf.Write(r)
		buf.WriteByte('\n')
	}
	if os.WriteFile(path, []byte(buf.String()), 0o644) != nil {
		return
	}
	ctx, cancel := context.WithTimeout(context.Background(), 15*time.Minute)
	defer cancel()
	out, err := exec.CommandContext(ctx, py, script, path).Output()
	var res struct {
		Checked        int    `json:"checked"`
		Skipped        int    `json:"skipped"`
		Disagreements  []any  `json:"disagreements"`
		NDisagreements int    `json:"n_disagreements"`
		Error          string `json:"error"`
	}
	if err != nil || json.Unmarshal(out, &res) != nil {
		agg.Extra["oracle_audit"] = map[string]any{"skipped": fmt.Sprintf("audit failed to run: %v", err)}
		return
	}
	agg.Extra["oracle_audit"] = map[string]any{"second_oracle": "python jsonschema (python3-vt)", "sampled": len(agg.Audit), "checked": res.Checked, "skipped_by_python": res.Skipped, "disagreements": res.NDisagreements, "examples": res.Disagreements, "error": res.Error}
	if res.NDisagreements > 0 {
		agg.AddInconclusive(fmt.Sprintf("oracle dispute: python jsonschema disagrees with the reference model on %d of %d sampled cases", res.NDisagreements, res.Checked))
	}
}

// Package typecorpus holds hand-written Go types for everything reflect cannot build at run time:
// named structs, embedded structs by value / pointer, unexported embedded types, named slices and maps,
// types that occur several times, recursive and mutually recursive types, standard-library marshaler
// types, and user marshaler types (used with ForOptions.TypeSchemas).
package typecorpus

import (
	"encoding/json"
	"log/slog"
	"math/big"
	"reflect"
	"sort"
	"time"
)

// --- plain data ---

type Scalars struct {
	B   bool    `json:"b"`
	I   int     `json:"i"`
	I8  int8    `json:"i8"`
	I16 int16   `json:"i16"`
	I32 int32   `json:"i32"`
	I64 int64   `json:"i64"`
	U   uint    `json:"u"`
	U8  uint8   `json:"u8"`
	U16 uint16  `json:"u16"`
	U32 uint32  `json:"u32"`
	U64 uint64  `json:"u64"`
	UP  uintptr `json:"up"`
	F32 float32 `json:"f32"`
	F64 float64 `json:"f64"`
	S   string  `json:"s"`
	A   any     `json:"a"`
}

type Tags struct {
	Plain     int `json:"plain"`
	NoTag     string
	Dash      int     `json:"-"`
	DashComma int     `json:"-,"`
	Empty     int     `json:""`
	OnlyOpt   int     `json:",omitempty"`
	Opt       *int    `json:"opt,omitempty"`
	Zero      []int   `json:"zero,omitzero"`
	Both      string  `json:"both,omitempty,omitzero"`
	unexp     int     //nolint
	Spaced    float64 `json:"with space"`
	Punct     bool    `json:"a.b-c_d"`
}

type Inner struct {
	X int    `json:"x"`
	Y string `json:"y,omitempty"`
}

type Pointers struct {
	PI   *int              `json:"pi"`
	PPI  **int             `json:"ppi"`
	PS   *string           `json:"ps"`
	PIn  *Inner            `json:"pin"`
	SP   []*Inner          `json:"sp"`
	MP   map[string]*Inner `json:"mp"`
	PSl  *[]int            `json:"psl"`
	PM   *map[string]bool  `json:"pm"`
	PArr *[2]int8          `json:"parr"`
	PA   *any              `json:"pa"`
}

type Containers struct {
	SI   []int                         `json:"si"`
	SSI  [][]int8                      `json:"ssi"`
	A3   [3]uint16                     `json:"a3"`
	A0   [0]string                     `json:"a0"`
	AS   [2][]string                   `json:"as"`
	SA   [][2]bool                     `json:"sa"`
	M    map[string]int                `json:"m"`
	MM   map[string]map[string]float32 `json:"mm"`
	MS   map[string][]Inner            `json:"ms"`
	MK   map[Key]uint8                 `json:"mk"`
	SIn  []Inner                       `json:"sin"`
	SAny []any                         `json:"sany"`
	MAny map[string]any                `json:"many"`
}

type Key string
type NamedInts []int
type NamedMap map[string]Inner
type NamedArr [2]Inner
type NamedInt int32
type NamedStr string
type NamedPtr *Inner

type NamedKinds struct {
	NI NamedInts `json:"ni"`
	NM NamedMap  `json:"nm"`
	NA NamedArr  `json:"na"`
	N  NamedInt  `json:"n"`
	S  NamedStr  `json:"s"`
	P  NamedPtr  `json:"p"`
	K  Key       `json:"k,omitempty"`
}

// Structs without any JSON-visible field.
type Empty struct{}
type OnlyOmitted struct {
	A int `json:"-"`
	b int //nolint
}
type HoldsEmpty struct {
	E  Empty               `json:"e"`
	PE *Empty              `json:"pe"`
	SE []struct{}          `json:"se"`
	ME map[string]struct{} `json:"me"`
	O  OnlyOmitted         `json:"o"`
	N  int                 `json:"n" jsonschema:"a described number"`
}

// Described carries jsonschema description tags.
type Described struct {
	Name  string   `json:"name" jsonschema:"the name"`
	Tags  []string `json:"tags,omitempty" jsonschema:"free-form tags, with = sign later"`
	Inner Inner    `json:"inner" jsonschema:"nested"`
	P     *int     `jsonschema:"no json tag"`
}

// --- embedding ---

type EmbBase struct {
	BaseA int    `json:"base_a"`
	BaseB string `json:"base_b,omitempty"`
}

type EmbDeep struct {
	EmbBase
	DeepC bool `json:"deep_c"`
}

type embUnexported struct {
	Hidden  int `json:"hidden_promoted"`
	hidden2 int //nolint
}

type EmbByValue struct {
	EmbBase
	Own int `json:"own"`
}

type EmbByPointer struct {
	*EmbBase
	Own int `json:"own"`
}

type EmbNested struct {
	Before string `json:"before"`
	EmbDeep
	After string `json:"after"`
}

type EmbUnexportedType struct {
	embUnexported
	Z int `json:"z"`
}

type EmbTwo struct {
	EmbBase
	Inner
	Last uint8 `json:"last"`
}

// Go-level shadowing with the SAME JSON name (the outer field wins in Go and in encoding/json).
type EmbShadowSame struct {
	EmbBase
	BaseA string `json:"base_a"`
}

// --- embedded fields that encoding/json does NOT flatten (a JSON name in the tag, a non-struct type) or
// drops together with everything they promote (json:"-"), and tags without a name (still flattened) ---

type EmbNamedTag struct {
	Inner `json:"inner"`
	N     int `json:"n"`
}
type EmbNamedTagPtr struct {
	*EmbBase `json:"base,omitempty"`
	N        int `json:"n"`
}
type EmbDashed struct {
	EmbBase `json:"-"`
	N       int `json:"n"`
}
type EmbOptsOnly struct { // no name in the tag: flattened (the ",inline" idiom included)
	EmbBase `json:",omitempty"`
	Inner   `json:",inline"`
	N       int `json:"n"`
}
type EmbNonStruct struct {
	NamedInt
	NamedStr `json:"s"`
	N        int `json:"n"`
}
type EmbNonStructPtr struct {
	*NamedInt
	NamedInts `json:",omitempty"`
	N         int `json:"n"`
}
type EmbMap struct {
	NamedMap
	Key `json:"-"`
}
type embPriv struct {
	P int `json:"p"`
}
type embprivint int
type EmbUnexportedTagged struct {
	embPriv    `json:"priv"` // an embedded struct of unexported type WITH a name is marshaled under that name
	embprivint               //nolint: an embedded unexported non-struct is ignored
	N          int           `json:"n"`
}
type EmbTaggedHoldsEmb struct { // the tagged embedded struct embeds further structs: none of their fields is promoted
	EmbNested `json:"nested"`
	Z         int `json:"z"`
}
type EmbFlattenedHoldsTagged struct { // flattened outer, tagged inner
	EmbNamedTag
	M int `json:"m"`
}

// Unnamed composite types as fields (C16: TypeSchemas entries may be keyed by ANY reflect.Type, also unnamed ones).
type UnnamedKinds struct {
	Tags []string       `json:"tags"`
	M    map[string]int `json:"m"`
	Raw  []byte         `json:"raw"`
	A    any            `json:"a"`
	L    [2]float32     `json:"l"`
	PS   *[]string      `json:"ps"`
	An   struct {
		Q int `json:"q"`
	} `json:"an"`
}

// The same named struct first behind a pointer, then by value, then as an element (and the other way round): what is
// nullable at one occurrence must not be nullable at the next.
type PtrThenVal struct {
	P *Inner   `json:"p"`
	V Inner    `json:"v"`
	L []Inner  `json:"l"`
	Q **Inner  `json:"q"`
	W Inner    `json:"w"`
	M []*Inner `json:"m"`
}
type ValThenPtr struct {
	V Inner  `json:"v"`
	P *Inner `json:"p"`
	W Inner  `json:"w"`
}

// An embedded POINTER to a struct of unexported type with a JSON name (marshaled under that name, null when nil).
type EmbUnexportedPtrTagged struct {
	*embPriv `json:"detail"`
	N        int `json:"n"`
}

// The same Go field name promoted three times: at one depth all occurrences cancel each other (no such member at all);
// a deeper later occurrence stays hidden too.
type TriHead struct {
	ID   string
	Name string `json:"name"`
}
type TriBody struct {
	ID   string
	Size int `json:"size"`
}
type TriTail struct {
	ID   string
	Note string `json:"note"`
}
type TriAmbiguous struct {
	TriHead
	TriBody
	TriTail
}
type TriBox struct{ TriTail }
type TriDeepLater struct {
	TriHead
	TriBody
	TriBox
}

// Depth-2 embedding: the flattened middle struct ENDS with an anonymous field that is not flattened (named, '-', non-struct),
// and the outer struct goes on with fields of its own.
type MidNamedLast struct {
	A     int `json:"a"`
	Inner `json:"inner"`
}
type OuterAfterMid struct {
	MidNamedLast
	Z string `json:"z"`
}
type MidDashLast struct {
	B       int `json:"b"`
	EmbBase `json:"-"`
}
type MidNonStructLast struct {
	C int `json:"c"`
	NamedInt
}
type OuterAfterMids struct {
	MidDashLast
	MidNonStructLast
	Last bool `json:"last"`
}

// The same type several times.
type Repeats struct {
	A  Inner            `json:"a"`
	B  Inner            `json:"b"`
	C  *Inner           `json:"c"`
	D  []Inner          `json:"d"`
	E  map[string]Inner `json:"e"`
	T1 time.Time        `json:"t1"`
	T2 *time.Time       `json:"t2"`
}

// --- standard library marshalers (C04 only) ---

type StdTypes struct {
	T  time.Time   `json:"t"`
	PT *time.Time  `json:"pt"`
	L  slog.Level  `json:"l"`
	R  *big.Rat    `json:"r"`
	F  *big.Float  `json:"f"`
	ST []time.Time `json:"st"`
	OT time.Time   `json:"ot,omitzero"`
}

// --- user marshalers (only with TypeSchemas) ---

type Custom struct{ V int }

func (c Custom) MarshalJSON() ([]byte, error) {
	if c.V%2 == 0 {
		return []byte(`7`), nil
	}
	return []byte(`"seven"`), nil
}
func (c *Custom) UnmarshalJSON(b []byte) error { c.V = len(b); return nil }

// Types of kinds For cannot translate by itself (non-string map keys, complex numbers) that marshal through their own
// MarshalJSON and get a TypeSchemas entry: the caller's entry decides, with or without IgnoreInvalidTypes.
type IDSet map[int]bool

func (s IDSet) MarshalJSON() ([]byte, error) {
	ids := make([]int, 0, len(s))
	for id := range s {
		ids = append(ids, id)
	}
	sort.Ints(ids)
	return json.Marshal(ids)
}
func (s *IDSet) UnmarshalJSON(b []byte) error {
	var ids []int
	if err := json.Unmarshal(b, &ids); err != nil {
		return err
	}
	*s = IDSet{}
	for _, id := range ids {
		(*s)[id] = true
	}
	return nil
}

type Point complex128

func (p Point) MarshalJSON() ([]byte, error) {
	return json.Marshal([2]float64{real(complex128(p)), imag(complex128(p))})
}
func (p *Point) UnmarshalJSON(b []byte) error {
	var a [2]float64
	if err := json.Unmarshal(b, &a); err != nil {
		return err
	}
	*p = Point(complex(a[0], a[1]))
	return nil
}

type WithInvalidKinds struct {
	IDs  IDSet            `json:"ids"`
	P    Point            `json:"p"`
	PP   *Point           `json:"pp"`
	Many map[string]IDSet `json:"many"`
	N    int              `json:"n"`
}

// big.Int marshals as a JSON number; with the caller's TypeSchemas entry {type: integer} (which must win over the built-in
// "string" translation, see KF-C04-3) its values validate.
type WithBigInt struct {
	I  *big.Int   `json:"i"`
	L  []*big.Int `json:"l"`
	V  big.Int    `json:"v"`
	ID string     `json:"id"`
}

type WithCustom struct {
	C  Custom            `json:"c"`
	Cs []Custom          `json:"cs"`
	M  map[string]Custom `json:"m"`
	N  int               `json:"n"`
}

type WithCustomPtr struct {
	First Custom             `json:"first"`
	P     *Custom            `json:"p"`
	PP    **Custom           `json:"pp,omitempty"`
	SP    []*Custom          `json:"sp"`
	MP    map[string]*Custom `json:"mp"`
	Last  Custom             `json:"last"`
}

// CustomObj is overridden by an object-typed schema (usable for embedded overrides).
type CustomObj struct {
	P int `json:"p"`
	Q int `json:"q"`
}

type EmbCustomObj struct {
	CustomObj
	R int `json:"r"`
}

// SpacedTags: blanks inside a json tag are part of what they touch. " omitempty" is not the omitempty option (the field is
// always written and read), " b" and "c " are names with a blank, "omitempty " is no option either.
type SpacedTags struct {
	A int     `json:"a, omitempty"`
	B string  `json:" b"`
	C *int    `json:"c ,omitzero"`
	D bool    `json:"d,omitempty "`
	E float64 `json:"e, omitzero,omitempty"`
	F []int   `json:" ,omitempty"`
}

// EmbTagIsOwnName: the tag spells exactly the embedded type's Go name. A name given by the tag is a name: the field is NOT
// flattened (encoding/json emits {"ID":..,"Meta":{...},"Tail":..}); a tag with options only leaves it flattened.
type Meta struct {
	Rev  int    `json:"Rev"`
	Note string `json:"note"`
}

type EmbTagIsOwnName struct {
	ID   int
	Meta `json:"Meta"`
	Tail bool
}

type EmbTagIsOwnNamePtr struct {
	ID    int
	*Meta `json:"Meta,omitempty"`
	Tail  bool
}

// HidOuter: a field of the outer struct has the GO NAME of a struct embedded one level down (HidHidden). In Go that hides the
// embedded field itself, but not the fields it promotes, and encoding/json flattens it regardless: "X" is a member. The
// embedded struct before it is tagged (not flattened).
type HidTagged struct{ T int }

type HidHidden struct{ X int }

type HidInner struct {
	HidTagged `json:"tagged"`
	HidHidden
}

type HidOuter struct {
	HidInner
	HidHidden string `json:"h"`
}

type HidOuterDash struct {
	*HidInnerDash
	HidHidden bool `json:"hh,omitempty"`
	Z         int
}

type HidInnerDash struct {
	HidTagged `json:"-"`
	HidHidden
	W string
}

// CustomObj2's entry names other properties than its fields ("p" as a string, "extra"; no "hidden").
type CustomObj2 struct {
	P      int `json:"p"`
	Hidden int `json:"hidden"`
}

type EmbCustomObj2 struct {
	CustomObj2
	R int `json:"r"`
}

type EmbCustomObj2Ptr struct {
	*CustomObj2
	R int `json:"r"`
}

// --- recursive types (must yield an error) ---

type Rec struct {
	Next *Rec `json:"next"`
}
type RecSlice struct {
	Kids []RecSlice `json:"kids"`
}
type RecMap struct {
	M map[string]*RecMap `json:"m"`
}
type MutA struct {
	B *MutB `json:"b"`
}
type MutB struct {
	A []MutA `json:"a"`
}
type RecDeep struct {
	X struct {
		Y []map[string]*RecDeep `json:"y"`
	} `json:"x"`
}

// --- unsupported kinds ---

type BadChan struct {
	OK int      `json:"ok"`
	C  chan int `json:"c"`
}
type BadFunc struct {
	F func() `json:"f"`
}
type BadComplex struct {
	Z  complex128 `json:"z"`
	Ok string     `json:"ok"`
}
type BadMapKey struct {
	M map[int]string `json:"m"`
	K int            `json:"k"`
}
type BadTagged struct {
	F  func()         `json:"f" jsonschema:"a callback"`
	C  chan int       `jsonschema:"a channel"`
	M  map[int]string `json:"m,omitempty" jsonschema:"bad key"`
	SF []func()       `json:"sf" jsonschema:"callbacks"`
	N  int            `json:"n" jsonschema:"a number"`
}

// Named unsupported types that occur several times in one type (pruned with IgnoreInvalidTypes, never a "cycle").
type NamedFunc func()
type NamedChan chan int
type NamedComplex complex128
type TwiceBad struct {
	A  NamedFunc            `json:"a"`
	B  NamedFunc            `json:"b,omitempty"`
	C  []NamedChan          `json:"c"`
	D  map[string]NamedChan `json:"d"`
	E  *NamedComplex        `json:"e"`
	F  NamedComplex         `json:"f"`
	N  int                  `json:"n"`
	In struct {
		G NamedFunc `json:"g"`
		M string    `json:"m"`
	} `json:"in"`
}

// Malformed jsonschema tags: For must return an error.
type BadTagEmpty struct {
	A int `json:"a" jsonschema:""`
}
type BadTagWord struct {
	A int    `json:"a" jsonschema:"ok"`
	B string `json:"b" jsonschema:"KEY=value is reserved"`
}
type BadDeep struct {
	L []map[string]*struct {
		C chan bool `json:"c"`
		N int       `json:"n"`
	} `json:"l"`
	Keep bool `json:"keep"`
}

// PlainData lists the types of C04's domain (C09 uses those without standard-library marshalers).
var PlainData = []reflect.Type{
	reflect.TypeFor[Scalars](), reflect.TypeFor[Tags](), reflect.TypeFor[SpacedTags](), reflect.TypeFor[[]SpacedTags](), reflect.TypeFor[EmbTagIsOwnName](), reflect.TypeFor[EmbTagIsOwnNamePtr](), reflect.TypeFor[HidOuter](), reflect.TypeFor[HidOuterDash](), reflect.TypeFor[[]HidOuter](), reflect.TypeFor[Inner](), reflect.TypeFor[Pointers](), reflect.TypeFor[Containers](),
	reflect.TypeFor[NamedKinds](), reflect.TypeFor[EmbByValue](), reflect.TypeFor[EmbByPointer](), reflect.TypeFor[EmbNested](), reflect.TypeFor[EmbUnexportedType](),
	reflect.TypeFor[EmbTwo](), reflect.TypeFor[EmbShadowSame](), reflect.TypeFor[EmbDeep](), reflect.TypeFor[PtrThenVal](), reflect.TypeFor[ValThenPtr](), reflect.TypeFor[[]PtrThenVal](),
	reflect.TypeFor[OuterAfterMid](), reflect.TypeFor[OuterAfterMids](), reflect.TypeFor[[]OuterAfterMid](), reflect.TypeFor[TriAmbiguous](), reflect.TypeFor[TriDeepLater](), reflect.TypeFor[[]TriAmbiguous](),
	reflect.TypeFor[EmbNamedTag](), reflect.TypeFor[EmbNamedTagPtr](), reflect.TypeFor[EmbDashed](), reflect.TypeFor[EmbOptsOnly](), reflect.TypeFor[EmbNonStruct](), reflect.TypeFor[EmbNonStructPtr](),
	reflect.TypeFor[EmbMap](), reflect.TypeFor[EmbUnexportedTagged](), reflect.TypeFor[EmbTaggedHoldsEmb](), reflect.TypeFor[EmbFlattenedHoldsTagged](), reflect.TypeFor[[]EmbNamedTag](), reflect.TypeFor[map[string]*EmbNonStruct](),
	reflect.TypeFor[Empty](), reflect.TypeFor[OnlyOmitted](), reflect.TypeFor[HoldsEmpty](), reflect.TypeFor[Described](), reflect.TypeFor[struct{}](), reflect.TypeFor[map[string]struct{}](), reflect.TypeFor[[]Empty](),
	reflect.TypeFor[[]Scalars](), reflect.TypeFor[map[string]*Containers](), reflect.TypeFor[*Pointers](), reflect.TypeFor[[2]Tags](), reflect.TypeFor[NamedMap](), reflect.TypeFor[NamedInts](),
	reflect.TypeFor[int8](), reflect.TypeFor[uint64](), reflect.TypeFor[float32](), reflect.TypeFor[string](), reflect.TypeFor[bool](), reflect.TypeFor[any](), reflect.TypeFor[*int](), reflect.TypeFor[[]any](),
	reflect.TypeFor[map[string]any](), reflect.TypeFor[[][]*int16](), reflect.TypeFor[Key](), reflect.TypeFor[NamedInt](),
	reflect.TypeFor[struct {
		A int `json:"a"`
		B struct {
			C []struct {
				D *uint8 `json:"d,omitempty"`
			} `json:"c"`
		} `json:"b"`
	}](),
}

// WithStd are types using standard-library marshalers (C04 only) and the repeated-type struct.
// (EmbUnexportedPtrTagged is marshal-only too: encoding/json panics when it DECODES into an embedded pointer to an unexported
// struct that has a JSON name, so the type cannot serve C09.)
var WithStd = []reflect.Type{reflect.TypeFor[EmbUnexportedPtrTagged](), reflect.TypeFor[[]EmbUnexportedPtrTagged](), reflect.TypeFor[StdTypes](), reflect.TypeFor[Repeats](), reflect.TypeFor[time.Time](), reflect.TypeFor[*time.Time](), reflect.TypeFor[[]slog.Level](), reflect.TypeFor[map[string]time.Time]()}

// Pointer types that refer to themselves without any struct on the way.
type SelfPtr *SelfPtr
type PtrA *PtrB
type PtrB *PtrA
type PtrSlice []*PtrSlice

// Named ARRAY types that contain themselves.
type PairRec [2]*PairRec
type GridRec [3][]GridRec

// Recursive types must make For return an error.
var Recursive = []reflect.Type{reflect.TypeFor[PairRec](), reflect.TypeFor[GridRec](), reflect.TypeFor[struct{ G []GridRec }](), reflect.TypeFor[SelfPtr](), reflect.TypeFor[PtrA](), reflect.TypeFor[*PtrB](), reflect.TypeFor[PtrSlice](), reflect.TypeFor[struct{ P SelfPtr }](), reflect.TypeFor[Rec](), reflect.TypeFor[RecSlice](), reflect.TypeFor[RecMap](), reflect.TypeFor[MutA](), reflect.TypeFor[MutB](), reflect.TypeFor[RecDeep](), reflect.TypeFor[[]*Rec](), reflect.TypeFor[map[string]MutA]()}

// Unsupported types must make For return an error, or be pruned with IgnoreInvalidTypes.
var Unsupported = []reflect.Type{reflect.TypeFor[BadChan](), reflect.TypeFor[BadFunc](), reflect.TypeFor[BadComplex](), reflect.TypeFor[BadMapKey](), reflect.TypeFor[BadDeep](), reflect.TypeFor[BadTagged](), reflect.TypeFor[[]BadTagged](), reflect.TypeFor[TwiceBad](), reflect.TypeFor[[]*TwiceBad](), reflect.TypeFor[map[string]TwiceBad](), reflect.TypeFor[NamedFunc](), reflect.TypeFor[[2]NamedChan](), reflect.TypeFor[chan int](), reflect.TypeFor[func()](),
	reflect.TypeFor[complex64](), reflect.TypeFor[map[int]int](), reflect.TypeFor[[]chan int](), reflect.TypeFor[map[string]func()](), reflect.TypeFor[*BadChan]()}

// Embeddable are struct types safe to embed into reflect-built structs (distinct JSON names).
var Embeddable = []reflect.Type{reflect.TypeFor[EmbBase](), reflect.TypeFor[Inner](), reflect.TypeFor[EmbDeep]()}

// BadTags have malformed jsonschema tags: For must fail with an error (with or without IgnoreInvalidTypes).
var BadTags = []reflect.Type{reflect.TypeFor[BadTagEmpty](), reflect.TypeFor[BadTagWord](), reflect.TypeFor[[]BadTagEmpty](), reflect.TypeFor[map[string]*BadTagWord]()}

// Package jsonorder decodes JSON keeping the order of object keys (token level).
package jsonorder

import (
	"bytes"
	"encoding/json"
	"fmt"
)

// Object is a JSON object with its keys in document order.
type Object struct {
	Keys []string
	Vals map[string]any
}

// Decode parses data; objects become *Object, arrays []any, numbers json.Number.
func Decode(data []byte) (any, error) {
	dec := json.NewDecoder(bytes.NewReader(data))
	dec.UseNumber()
	v, err := value(dec)
	if err != nil {
		return nil, err
	}
	if _, err := dec.Token(); err == nil {
		return nil, fmt.Errorf("trailing data")
	}
	return v, nil
}

func value(dec *json.Decoder) (any, error) {
	tok, err := dec.Token()
	if err != nil {
		return nil, err
	}
	switch t := tok.(type) {
	case json.Delim:
		switch t {
		case '{':
			o := &Object{Vals: map[string]any{}}
			for dec.More() {
				kt, err := dec.Token()
				if err != nil {
					return nil, err
				}
				k := kt.(string)
				v, err := value(dec)
				if err != nil {
					return nil, err
				}
				if _, dup := o.Vals[k]; dup {
					return nil, fmt.Errorf("duplicate key %q", k)
				}
				o.Keys = append(o.Keys, k)
				o.Vals[k] = v
			}
			if _, err := dec.Token(); err != nil {
				return nil, err
			}
			return o, nil
		case '[':
			a := []any{}
			for dec.More() {
				v, err := value(dec)
				if err != nil {
					return nil, err
				}
				a = append(a, v)
			}
			if _, err := dec.Token(); err != nil {
				return nil, err
			}
			return a, nil
		}
		return nil, fmt.Errorf("unexpected delimiter %v", t)
	default:
		return tok, nil
	}
}

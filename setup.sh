#!/bin/bash
# Run once after a fresh restore, offline: warm the Go build cache for the harness (plain and race flavours)
# and run the oracle self-tests (reference model vs. the official suite copy, canonical form).
set -e
cd "$(dirname "$0")/harness"
export GOFLAGS=-mod=mod GOPROXY=off GOSUMDB=off GOTOOLCHAIN=local
cp /repo/go.sum go.sum
mkdir -p ../.build/setup
go build -tags verif -o ../.build/setup/vcheck ./cmd/vcheck
go build -race -tags verif -o ../.build/setup/vcheck-race ./cmd/vcheck
go test ./internal/refmodel/ ./internal/canon/ ./internal/gen/ 2>&1 | tail -5
rm -rf ../.build/setup
echo setup ok
